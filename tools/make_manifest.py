"""Regenerate /verif/MANIFEST.json from tools/claims.json (one record per property: claimed or not).
Run: python3 tools/make_manifest.py"""
import json
import os

VERIF = os.path.dirname(os.path.dirname(os.path.abspath(__file__)))
claims = json.load(open(os.path.join(VERIF, 'tools', 'claims.json')))
BASE = ("cd /repo && /venv/bin/python -m pytest -ra -q -p no:cacheprovider --timeout=900 --continue-on-collection-errors")

checks, na = [], []
e1_serves, e2_serves = [], []
for pid in sorted(claims['properties']):
    c = claims['properties'][pid]
    if not c.get('claimed'):
        na.append({'property_id': pid, 'reason': c['reason']})
        continue
    e1_serves.append(pid)
    if c.get('e2'):
        e2_serves.append(pid)
    checks.append({
        'property_id': pid,
        'quick_cmd': f'./check {pid} --tier quick',
        'thorough_cmd': f'./check {pid} --tier thorough',
        'evidence_file': f'/verif/evidence/{pid}.json',
        'replay_cmd_template': f'./check {pid} --replay {{path}}',
        'engine': 'e1-crosshair' + ('+e2-astvc' if c.get('e2') else ''),
        'level_claimed': {
            'category': 'other',
            'text': c['text'],
            'design_ref': c.get('design_ref', f'DESIGN.md section 3 ({pid})'),
        },
        'level_note': c['note'],
        'technique': c.get('technique', 'bounded symbolic execution of the real Python code (CrossHair) with z3 deciding every path; counterexamples replayed on CPython')
                     + ('; plus z3 verification conditions generated from the AST of the real source for wide-range loop kernels (E2), translation-validated and replayed' if c.get('e2') else ''),
    })

manifest = {
    'version': 1,
    'setup_cmd': './setup.sh',
    'hooks': {
        'guard': 'BUMBLE_VERIF',
        'enable': 'no source hooks are needed: harnesses drive public and module-level entry points of /repo and stub collaborators on the /verif side (BUMBLE_VERIF is reserved and unused)',
        'baseline_off_cmd': BASE,
        'source_commits': [],
        'add_only': True,
    },
    'engines': [
        {'name': 'e1-crosshair', 'path': 'vf/e1.py', 'serves_properties': e1_serves,
         'kind_free_text': 'CrossHair 0.0.110 symbolic execution of the real bumble code, z3 per path, one forked process per condition, modelling shim vf/shim.py, deterministic event loop vf/detloop.py, replay of every counterexample on plain CPython'},
        {'name': 'e2-astvc', 'path': 'vf/e2.py', 'serves_properties': e2_serves,
         'kind_free_text': 'AST -> z3 verification conditions for loop bodies / integer kernels, regenerated from /repo source on every run, translation-validated against the real function'},
    ],
    'checks': checks,
    'notes': claims.get('notes', ''),
    'not_applicable': na,
}
json.dump(manifest, open(os.path.join(VERIF, 'MANIFEST.json'), 'w'), indent=1)
print(f'{len(checks)} claimed, {len(na)} not claimed')
