#!/bin/bash
# tools/verify_seed.sh <PROP> <k> [srcdir]: confirm a seeded change in a scratch worktree of /repo HEAD, then store it in /verif/seeded/<PROP>-<k>/
set -u
id=$1; k=$2; src=${3:-/tmp/seed-$id/$k}
wt=/tmp/vs-$id-$k
git -C /repo worktree remove --force $wt 2>/dev/null
git -C /repo worktree add -q --detach $wt HEAD || exit 2
cd $wt
res() { echo "RESULT $id-$k: $*"; cd /; git -C /repo worktree remove --force $wt; }
/venv/bin/python $src/demo.py >/tmp/vs-$id-$k.clean.log 2>&1; c0=$?
if [ $c0 -ne 0 ]; then res "demo fails on clean HEAD (exit $c0)"; exit 1; fi
if ! git apply $src/patch.diff 2>/tmp/vs-$id-$k.apply.log; then res "patch does not apply: $(head -2 /tmp/vs-$id-$k.apply.log)"; exit 1; fi
/venv/bin/python -m pytest -q -p no:cacheprovider --timeout=900 -x >/tmp/vs-$id-$k.suite.log 2>&1; s=$?
suite=$(grep -E "passed|failed" /tmp/vs-$id-$k.suite.log | tail -1)
/venv/bin/python $src/demo.py >/tmp/vs-$id-$k.mut.log 2>&1; c1=$?
if [ $s -ne 0 ]; then res "suite fails with change: $suite"; exit 1; fi
if [ $c1 -eq 0 ]; then res "demo passes with change"; exit 1; fi
d=/verif/seeded/$id-$k; mkdir -p $d
cp $src/patch.diff $src/demo.py $d/; cp $src/notes.md $d/ 2>/dev/null
head=$(git -C /repo rev-parse --short HEAD)
python3 - "$id" "$k" "$head" "$suite" <<'PY'
import json,sys,os
id,k,head,suite=sys.argv[1:5]
d=f'/verif/seeded/{id}-{k}'
notes=open(f'{d}/notes.md').read() if os.path.exists(f'{d}/notes.md') else ''
meta={'property':id,'seed':f'{id}-{k}','breaks':notes.strip()[:1500],'confirmed_on_repo_head':head,
 'ran':[f'scratch worktree of /repo@{head}: demo.py on clean tree -> exit 0', f'git apply patch.diff; full test suite -> {suite.strip()}', 'demo.py with change -> non-zero exit'],
 'detected_by': None}
if os.path.exists(f'{d}/meta.json'):
    old=json.load(open(f'{d}/meta.json')); meta['detected_by']=old.get('detected_by')
json.dump(meta,open(f'{d}/meta.json','w'),indent=1)
PY
res "OK suite=[$suite] demo-with-change-exit=$c1"
