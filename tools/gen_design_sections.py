"""Emit the generated parts of DESIGN.md: per-property condition families with their bounds (read from the harness
modules) and the seeds matrix (read from seeded/*/meta.json).  Run with /verif/.venv/bin/python."""
import glob, json, os, sys
sys.path.insert(0, '/verif'); sys.path.insert(0, '/repo')
import logging; logging.disable(logging.CRITICAL)
from vf import props

def families(prop):
    out = {}
    for tier in ('quick', 'thorough'):
        for c in props.conditions(prop, tier):
            base = c.name.split('@')[0].split('.')[0]
            k = (c.family, base)
            d = out.setdefault(k, {'bounds': c.bounds, 'quick': 0, 'thorough': 0, 'timeout': c.timeout, 'canaries': [n for n, _ in (c.canaries or [])], 'twin': c.twin})
            d[tier] += 1
    return out

def section_props(which):
    for prop in which:
        m = props.module(prop)
        fams = families(prop)
        print(f'#### {prop} - conditions as built\n')
        print('| family | harness | conditions quick / thorough | what is symbolic, bounds, assertion |')
        print('|---|---|---|---|')
        byfam = {}
        for (fam, base), d in fams.items():
            byfam.setdefault(fam, []).append((base, d))
        for fam, items in byfam.items():
            if len(items) > 10:
                # generated per class: one row for the family
                q = sum(d['quick'] for _, d in items); t = sum(d['thorough'] for _, d in items)
                from collections import Counter
                b = Counter((d['bounds'] or '') for _, d in items).most_common(1)[0][0].replace('|', '/').replace('\n', ' ')
                names = ', '.join(f'`{n}`' for n, _ in items[:3])
                print(f'| {fam} | {len(items)} generated harnesses ({names}, ...) | {q} / {t} | typical: {b} |')
                continue
            for base, d in items:
                b = (d['bounds'] or '').replace('|', '/').replace('\n', ' ')
                extra = (' Canaries: ' + ', '.join(d['canaries']) + '.') if d['canaries'] else ''
                print(f'| {fam} | `{base}` | {d["quick"]} / {d["thorough"]} | {b}{extra} |')
        if hasattr(m, 'e2_obligations'):
            for ob in m.e2_obligations('quick'):
                print(f'| E2 | `{ob["name"]}` | 1 / 1 (+{len(ob.get("mutants", []))} mutants) | {ob["kernel"]}: {ob["bounds"]} |')
        print()
        for a in getattr(m, 'ASSUMPTIONS', []):
            print(f'* assumption: {a}')
        print()

def section_seeds():
    print('| seed | what it breaks (first line) | needs | detected by (quick tier) |')
    print('|---|---|---|---|')
    for d in sorted(glob.glob('/verif/seeded/C*-*')):
        m = json.load(open(os.path.join(d, 'meta.json')))
        lines = [l for l in m['breaks'].splitlines() if l.strip()]
        title = lines[0].lstrip('# ').replace('|', '/')[:140]
        needs = next((l for l in lines if 'needed' in l.lower() or 'manifest' in l.lower()), '')[:160].replace('|', '/')
        det = m.get('detected_by') or {}
        q = det.get('quick') or det.get('thorough') or {}
        if q.get('detected'):
            conds = sorted({c.split(':')[0].replace('counterexample ', '').strip() for c in q.get('first_counterexamples', [])})
            how = ', '.join(f'`{c}`' for c in conds[:3]) or 'yes'
        else:
            how = '**not detected**' if q else 'not run'
        print(f'| {os.path.basename(d)} | {title} | {needs} | {how} |')

if __name__ == '__main__':
    if sys.argv[1] == 'seeds':
        section_seeds()
    else:
        section_props(sys.argv[2:] or [f'C{i:02d}' for i in range(1, 21)])
