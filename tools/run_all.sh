#!/bin/bash
# tools/run_all.sh [tier] [props...]: run the checks of all claimed (or the listed) properties, one summary line each
tier=${1:-quick}; shift
cd /verif
props="$@"
[ -z "$props" ] && props=$(python3 -c "import json; print(' '.join(c['property_id'] for c in json.load(open('MANIFEST.json'))['checks']))")
for p in $props; do
  s=$(date +%s)
  ./check $p --tier $tier > /tmp/runall-$p-$tier.log 2>&1; rc=$?
  e=$(date +%s)
  echo "$p exit=$rc $((e-s))s $(grep -m1 "^$p $tier:" /tmp/runall-$p-$tier.log)"
done
