"""Assemble /verif/DESIGN.md from tools/design_*.md plus generated sections (harness tables, fixed/finding
lists, timings, seeds matrix).  Run: /verif/.venv/bin/python tools/build_design.py"""
import ast, glob, io, json, os, re, sys, contextlib
VERIF = os.path.dirname(os.path.dirname(os.path.abspath(__file__)))
sys.path.insert(0, VERIF); sys.path.insert(0, '/repo')
sys.path.insert(0, os.path.join(VERIF, 'tools'))
import gen_design_sections as g

def cap(fn, *a):
    buf = io.StringIO()
    with contextlib.redirect_stdout(buf):
        fn(*a)
    return buf.getvalue()

parts = ast.literal_eval(open(os.path.join(VERIF, 'tools', 'design_parts.py')).read())
kf = json.load(open(os.path.join(VERIF, 'known_findings.json')))
head = open(os.path.join(VERIF, 'tools', 'design_head.md')).read()
head = head.replace('**48 genuine defects**', f'**{len(kf["fixed"]) + len(kf["findings"])} genuine defects**').replace('40 were repaired', f'{len(kf["fixed"])} were repaired').replace('8 are recorded', f'{len(kf["findings"])} are recorded')
mach = open(os.path.join(VERIF, 'tools', 'design_mach.md')).read().replace('SHIM_PLACEHOLDER', parts['shim'].rstrip())
props_md = open(os.path.join(VERIF, 'tools', 'design_props.md')).read().replace('ORACLE_PLACEHOLDER', parts['oracle'].rstrip())
for i in range(1, 21):
    pid = f'C{i:02d}'
    props_md = props_md.replace(f'<!--GEN:{pid}-->', cap(g.section_props, [pid]).rstrip())
tail = open(os.path.join(VERIF, 'tools', 'design_tail.md')).read()
tail = tail.replace('<!--GEN:fixed-->', '\n'.join('* ' + f[len('fixed: '):] for f in kf['fixed']))
tail = tail.replace('<!--GEN:findings-->', '\n'.join(f'* `{f["id"]}` ({f["property"]}; condition `{f["condition"]}` when `{f["when"]}`): {f["what"]}' for f in kf['findings']))
tail = tail.replace('<!--GEN:seeds-->', cap(g.section_seeds).rstrip())
# timings from the sweep logs, if present (kept in tools/timings.json so the build is reproducible without /tmp)
tj = os.path.join(VERIF, 'tools', 'timings.json')
rows = json.load(open(tj)) if os.path.exists(tj) else {}
t = ['| property | quick | thorough |', '|---|---|---|']
for i in range(1, 21):
    pid = f'C{i:02d}'
    r = rows.get(pid, {})
    t.append(f'| {pid} | {r.get("quick", "-")} | {r.get("thorough", "-")} |')
tail = tail.replace('<!--GEN:timings-->', '\n'.join(t))
out = head + parts['sec1'].rstrip() + '\n\n' + mach + '\n' + props_md + '\n' + tail + '\n' + parts['appendix']
open(os.path.join(VERIF, 'DESIGN.md'), 'w').write(out)
print(len(out.splitlines()), 'lines')
