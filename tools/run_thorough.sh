#!/bin/bash
# tools/run_thorough.sh [props...]: run each thorough command end-to-end once (wall-capped), one summary line each
cd /verif
props="$@"
[ -z "$props" ] && props="C13 C19 C20 C05 C09 C10 C11 C08 C04 C02 C07 C12 C14 C15 C06 C16 C03 C18 C17 C01"
for p in $props; do
  s=$(date +%s)
  timeout ${CAP:-3600} ./check $p --tier thorough --workers ${W:-16} > /tmp/thorough-$p.log 2>&1; rc=$?
  e=$(date +%s)
  echo "$p exit=$rc $((e-s))s $(grep -m1 "^$p thorough:" /tmp/thorough-$p.log)"
  grep "WARNING\|inconclusive: e2" /tmp/thorough-$p.log | head -5
done
