#!/bin/bash
# tools/run_seed.sh <PROP>-<k> [tier] [extra check args]
# Runs the property's check against a scratch worktree of /repo HEAD with the seeded change applied
# (VERIF_REPO selects the tree, VERIF_OUT keeps evidence/replays of the run out of /verif), records the
# outcome in seeded/<seed>/meta.json and removes the worktree.  Equivalent to
#   git -C /repo apply seeded/<seed>/patch.diff; ./check <PROP>; git -C /repo checkout -- .
# but several seeds can run at once and /repo is never touched.
set -u
seed=$1; tier=${2:-quick}; shift; shift
prop=${seed%%-*}
wt=/tmp/sr-$seed; out=/tmp/sr-$seed.out
git -C /repo worktree remove --force $wt 2>/dev/null
git -C /repo worktree add -q --detach $wt HEAD || exit 2
( cd $wt && git apply /verif/seeded/$seed/patch.diff ) || { echo "SEED $seed: patch does not apply"; git -C /repo worktree remove --force $wt; exit 2; }
mkdir -p $out
cd /verif
VERIF_REPO=$wt VERIF_OUT=$out ./check $prop --tier $tier "$@" > /tmp/seedrun-$seed.log 2>&1; rc=$?
git -C /repo worktree remove --force $wt
rm -rf $out
python3 - "$seed" "$tier" "$rc" "$*" <<'PY'
import json,sys,re
seed,tier,rc,extra=sys.argv[1:5]
mp=f'/verif/seeded/{seed}/meta.json'; m=json.load(open(mp))
log=open(f'/tmp/seedrun-{seed}.log').read()
cex=[l.strip()[:240] for l in log.splitlines() if l.strip().startswith('counterexample')][:3]
d=m.get('detected_by') or {}
d[tier]={'detected': rc=='1', 'exit': int(rc), 'first_counterexamples': cex, 'cmd': f'tools/run_seed.sh {seed} {tier}  (scratch worktree of /repo HEAD + patch.diff; VERIF_REPO=<worktree> ./check {seed.split("-")[0]} --tier {tier}' + (' ' + extra if extra else '') + ')'}
m['detected_by']=d
json.dump(m,open(mp,'w'),indent=1)
PY
echo "SEED $seed tier=$tier exit=$rc $(grep -c '^VIOLATION' /tmp/seedrun-$seed.log) violations: $(grep -m2 'counterexample' /tmp/seedrun-$seed.log | cut -c1-200 | tr '\n' ' ')"
