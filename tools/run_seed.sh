#!/bin/bash
# tools/run_seed.sh <PROP>-<k> [tier] [extra check args]: apply a seeded change to /repo, run the property's check, restore /repo
set -u
seed=$1; tier=${2:-quick}; shift; shift
prop=${seed%%-*}
cd /verif
if [ -n "$(git -C /repo status --porcelain --untracked-files=no)" ]; then echo "repo dirty"; exit 2; fi
git -C /repo apply /verif/seeded/$seed/patch.diff || { echo "SEED $seed: patch does not apply"; exit 2; }
./check $prop --tier $tier "$@" > /tmp/seedrun-$seed.log 2>&1; rc=$?
git -C /repo checkout -- .
python3 - "$seed" "$tier" "$rc" <<'PY'
import json,sys,re
seed,tier,rc=sys.argv[1:4]
mp=f'/verif/seeded/{seed}/meta.json'; m=json.load(open(mp))
log=open(f'/tmp/seedrun-{seed}.log').read()
cex=[l.strip()[:240] for l in log.splitlines() if l.strip().startswith('counterexample')][:3]
d=m.get('detected_by') or {}
d[tier]={'detected': rc=='1', 'exit': int(rc), 'first_counterexamples': cex, 'cmd': f'git -C /repo apply seeded/{seed}/patch.diff; ./check {seed.split("-")[0]} --tier {tier}; git -C /repo checkout -- .'}
m['detected_by']=d
json.dump(m,open(mp,'w'),indent=1)
PY
echo "SEED $seed tier=$tier exit=$rc $(grep -c '^VIOLATION' /tmp/seedrun-$seed.log) violations: $(grep -m2 'counterexample' /tmp/seedrun-$seed.log | cut -c1-200 | tr '\n' ' ')"
