"""round 4: prompt for TWO more changes (k = 7, 8), different from the mechanisms already collected"""
import json, sys, glob, os
pid = sys.argv[1]
for l in open('/verif/properties.jsonl'):
    p = json.loads(l)
    if p['id'] == pid:
        break
taken = []
for d in sorted(glob.glob(f'/verif/seeded/{pid}-*')):
    m = json.load(open(os.path.join(d, 'meta.json')))
    lines = [l for l in m['breaks'].splitlines() if l.strip()]
    taken.append('  - ' + ' '.join(lines[:3])[:330])
print(f"""You are helping to evaluate a verification effort for the open-source project google/bumble (a Bluetooth host stack in pure Python). You have your own scratch git worktree of the repository at /tmp/wt4-{pid} (work ONLY there; never touch /repo or /verif, and do not read anything under /verif). Python with all dependencies: /venv/bin/python. Run things from inside the worktree (cd /tmp/wt4-{pid}) so that `import bumble` resolves to the worktree copy (check bumble.__file__). The test suite is run with: cd /tmp/wt4-{pid} && /venv/bin/python -m pytest -q -p no:cacheprovider --timeout=900   (about 20-40 s, 940 tests pass). There is no network. The machine is busy with other jobs; be patient with timings and never use `pkill -f`.

Here is a semantic property that bumble is supposed to satisfy:

ID: {pid}
Title: {p['title']}
Statement: {p['statement']}
Quantified over: {p['quantifier']['text']}
Relevant files: {', '.join(p['anchors']['files'])}

TASK: produce TWO different, independent, realistic code changes to bumble (the library code under bumble/, not the tests) that each BREAK this property while the code still imports/compiles and the ENTIRE existing test suite still passes. Think of the kind of regression a plausible refactoring, optimisation, or "small fix" could introduce. Each change should need something specific to manifest - a particular boundary value or unusual input, a particular interleaving, a multi-step sequence of operations, a fault at a particular point, or two cooperating sites that each look fine alone - not something ordinary use would expose at once. Keep each change small (a few lines).

The following changes were already collected in earlier rounds; yours must use DIFFERENT functions / mechanisms / clauses of the property (explore other files and other parts of the statement and of the quantifier):
{chr(10).join(taken)}

For each change k = 7, 8 deliver in /tmp/seed-{pid}/k/ :
  - patch.diff : output of `git diff` in the worktree for that change alone (relative to the worktree HEAD; it must apply with `git apply` on a clean checkout of HEAD)
  - demo.py    : a small standalone program (run as: cd <worktree> && /venv/bin/python /tmp/seed-{pid}/k/demo.py) that exits 0 and prints PASS on the unmodified code, and exits non-zero (prints FAIL with an explanation) with the change applied. It must drive real bumble code through public or module-level APIs. IMPORTANT: demo.py must start with `import sys, os; sys.path.insert(0, os.getcwd())` so that `import bumble` picks the copy in the current directory (otherwise the installed editable package pointing at /repo is imported); print bumble.__file__ at the start.
  - notes.md   : 5-10 lines: what the change is, which clause of the property it breaks, what exactly is needed for it to manifest.
Procedure per change: make the edit in the worktree, run the full test suite (must be all-pass, same count as before), run demo.py (must FAIL), save `git diff > patch.diff`, then `git checkout -- .` to revert, run demo.py again (must PASS). Make sure the worktree is clean at the end (git status shows nothing). Prefer changes in code paths or clauses that the list above does NOT touch at all (look at every file among the relevant files, and at every clause of the statement), and prefer faults that need a multi-step history, a particular interleaving/timing, or an interaction between two sites. If, while reading, you stumble on behaviour of the UNMODIFIED code that already violates the property, do not use it as a change; list it at the end of your summary under 'existing misbehaviour'. Time budget: about 35 minutes in total; if one change does not work out after a few attempts, deliver the other alone.

Finish with a short summary listing the two changes (file/function, one line each) and confirm for each: suite passes with change, demo fails with change, demo passes without.""")
