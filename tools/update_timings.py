"""tools/update_timings.py <tier> <logfile>...: merge the summary lines of tools/run_all.sh / tools/run_thorough.sh logs into tools/timings.json"""
import json, os, re, sys
VERIF = os.path.dirname(os.path.dirname(os.path.abspath(__file__)))
path = os.path.join(VERIF, 'tools', 'timings.json')
rows = json.load(open(path)) if os.path.exists(path) else {}
tier = sys.argv[1]
for log in sys.argv[2:]:
    for l in open(log):
        m = re.match(r'(C\d\d) exit=(\d+) (\d+)s (C\d\d) \w+: (\d+) conditions, (\d+) confirmed, (\d+) inconclusive, (\d+) violations, (\d+) known findings; paths=(\d+)(?:.*?; E2 (\d+/\d+) VCs)?', l)
        if m:
            rows.setdefault(m.group(1), {})[tier] = (f"{m.group(3)} s; {m.group(5)} conditions, {m.group(6)} confirmed, {m.group(7)} inconclusive, {m.group(9)} known findings, "
                                                      f"{m.group(10)} paths" + (f", E2 {m.group(11)}" if m.group(11) else ''))
json.dump(rows, open(path, 'w'), indent=1)
print(len(rows), 'properties')
