#!/bin/bash
# tools/seed4.sh <PROP>...: for each property confirm round-4 seeds 7 and 8 (tools/verify_seed.sh) and run the quick check against each (tools/run_seed.sh)
cd /verif
for id in "$@"; do
  for k in 7 8; do
    [ -f /tmp/seed-$id/$k/patch.diff ] || { echo "RESULT $id-$k: not delivered"; continue; }
    tools/verify_seed.sh $id $k || continue
    tools/run_seed.sh $id-$k quick
  done
done
