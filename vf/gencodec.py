"""Generator of codec round-trip conditions for every table-driven PDU class (HCI_Object field
tables: HCI commands/events/LE sub-events/return parameters, ATT, SMP, L2CAP signalling).
The class set and each layout are read from the registries of the *current* /repo tree on
every run; nothing about individual classes is stored in /verif.

For a class with field table F a *shape* fixes the control bytes (array counts, length bytes,
rest-of-packet length); all other parameter bytes are symbolic (0..255).  Enum/flag-typed bytes
range over a representative tuple selected by a symbolic index through a generated if/elif
switch, so the value reaching the enum constructor is concrete on each path (DESIGN C01).
"""
from __future__ import annotations

import dataclasses
import enum
import functools
import inspect
import itertools
import struct
from typing import Any, Callable, Dict, List, Optional, Tuple

from vf.e1 import Cond

from bumble import hci, utils


# ----------------------------------------------------------------------------------------------
# layout derivation
# ----------------------------------------------------------------------------------------------
class Slot:
    __slots__ = ('kind', 'val', 'reps', 'mul', 'top')

    def __init__(self, kind, val=None, reps=None, mul=1, top=255):
        self.kind, self.val, self.reps = kind, val, reps   # 'sym' | 'const' | 'reps' (reps: list of byte tuples)
        self.mul, self.top = mul, top                      # sym byte = mul * x with 0 <= x <= top (reserved low bits zero)


def enum_reps(cls, size: int, byteorder: str) -> List[Tuple[int, ...]]:
    top = (1 << (8 * size)) - 1
    members = sorted({int(m.value) for m in cls if 0 <= int(m.value) <= top})
    vals: List[int] = []
    if issubclass(cls, enum.Flag):
        singles = [v for v in members if v and v & (v - 1) == 0]
        allbits = 0
        for v in members:
            allbits |= v
        vals = [0] + singles[:3] + singles[-1:] + [allbits & top]
        spare = [1 << i for i in range(8 * size) if not (allbits >> i) & 1]
        if spare:
            vals.append(spare[-1])
    else:
        if members:
            step = max(1, len(members) // 4)
            vals = members[::step][:4] + [members[-1]]
        if issubclass(cls, utils.OpenIntEnum):
            vals += [0, top]
            undeclared = next((v for v in range(top, -1, -1) if v not in members), None)
            if undeclared is not None:
                vals.append(undeclared)
    out = []
    for v in vals:
        t = tuple(v.to_bytes(size, byteorder))
        if t not in out:
            out.append(t)
    return out or [tuple([0] * size)]


def _probe_size(parser: Callable) -> int:
    new_offset, _ = parser(bytes(64), 1)
    return new_offset - 1


def field_slots(spec, shape: List[int], prev: List[Slot]) -> List[Slot]:
    """slots for one scalar field; consumes from `shape` for variable-length fields"""
    if isinstance(spec, dict):
        if 'size' in spec:
            return field_slots(spec['size'], shape, prev)
        parser = spec.get('parser')
        if _is_string_parser(parser):
            # length-prefixed UTF-8 string (avrcp): big-endian length of `length_size` bytes, then ASCII bytes
            n, ls = shape.pop(0), parser.keywords['length_size']
            return [Slot('const', 0) for _ in range(ls - 1)] + [Slot('const', n)] + [Slot('sym', mul=1, top=127) for _ in range(n)]
        nl = inspect.getclosurevars(parser).nonlocals if (parser and not isinstance(parser, functools.partial)) else {}
        cls, size = nl.get('cls'), nl.get('size')
        if isinstance(cls, type) and issubclass(cls, enum.Enum) and isinstance(size, int):
            return [Slot('reps', reps=enum_reps(cls, size, nl.get('byteorder', 'little')))]
        if parser is not None:
            out = field_slots(parser, shape, prev)
            ser = spec.get('serializer')
            padded = getattr(ser, 'keywords', {}).get('padded_size') if ser is not None else None
            if padded and len(out) < padded:
                out = out + [Slot('const', 0) for _ in range(padded - len(out))]
            return out
        raise NotImplementedError(f'field spec {spec!r}')
    if spec == '*':
        return [Slot('sym') for _ in range(shape.pop(0))]
    if spec == 'v':
        n = shape.pop(0)
        return [Slot('const', n)] + [Slot('sym') for _ in range(n)]
    if spec in (1, -1):
        return [Slot('sym')]
    if spec in (2, -2, '>2'):
        return [Slot('sym'), Slot('sym')]
    if spec == 3:
        return [Slot('sym')] * 3
    if spec in (4, '>4'):
        return [Slot('sym')] * 4
    if isinstance(spec, int) and 4 < spec <= 256:
        if spec <= 16:
            return [Slot('sym') for _ in range(spec)]
        return [Slot('sym'), Slot('sym')] + [Slot('const', (0x5A + i) & 0xFF) for i in range(spec - 4)] + [Slot('sym'), Slot('sym')]
    if callable(spec):
        qn = getattr(spec, '__qualname__', '')
        sub = nested_fields(spec)
        if sub is not None:
            return layout(sub, shape, consume=True)
        if qn == 'CodingFormat.parse_from_bytes':
            return [Slot('reps', reps=enum_reps(hci.CodecID, 1, 'little'))] + [Slot('sym') for _ in range(4)]
        if qn.endswith('parse_address_preceded_by_type'):
            # the type byte just before the address is turned into an AddressType member
            if prev and prev[-1].kind == 'sym':
                prev[-1] = Slot('reps', reps=[(0,), (1,), (2,), (3,), (0xFF,)])
            return [Slot('sym') for _ in range(6)]
        if qn.endswith('parse_length_prefixed_bytes'):
            n = shape.pop(0)
            return [Slot('const', n)] + [Slot('sym') for _ in range(n)]
        if qn == 'UUID.parse_uuid':
            return [Slot('sym') for _ in range(shape.pop(0))]
        if is_rest_parser(spec):
            return [Slot('sym') for _ in range(shape.pop(0))]
        try:
            n = _probe_size(spec)
        except Exception as e:
            raise NotImplementedError(f'cannot probe field parser {qn}: {e!r}')
        return [Slot('sym') for _ in range(n)]
    raise NotImplementedError(f'field spec {spec!r}')


_REST_CACHE: Dict[int, bool] = {}


def is_rest_parser(parser) -> bool:
    """a field parser that consumes the rest of the PDU (returns new offset == len(data)) for two buffer sizes"""
    k = id(parser)
    if k not in _REST_CACHE:
        try:
            _REST_CACHE[k] = parser(bytes(8), 2)[0] == 8 and parser(bytes(12), 2)[0] == 12
        except Exception:
            _REST_CACHE[k] = False
    return _REST_CACHE[k]


def rest_lengths(spec_dict) -> List[int]:
    """lengths 0..6 of an all-zero tail that the parser/serializer pair reproduces (item granularity of list parsers)"""
    parser, ser = spec_dict.get('parser'), spec_dict.get('serializer')
    out = []
    for n in range(0, 7):
        try:
            v = parser(bytes(2 + n), 2)[1]
            if ser is None or bytes(ser(v)) == bytes(n):
                out.append(n)
        except Exception:
            pass
    return out


def nested_fields(spec):
    """field table of a nested HCI_Dataclass_Object parsed by its bound parse_from_bytes, else None"""
    owner = getattr(spec, '__self__', None)
    if isinstance(owner, type) and issubclass(owner, hci.HCI_Dataclass_Object) and getattr(spec, '__name__', '') == 'parse_from_bytes':
        return hci.HCI_Object.fields_from_dataclass(owner)
    return None


def _is_string_parser(parser) -> bool:
    return isinstance(parser, functools.partial) and getattr(parser.func, '__name__', '') == '_parse_string'


def is_variable(spec) -> bool:
    if isinstance(spec, dict):
        if 'size' in spec:
            return is_variable(spec['size'])
        if _is_string_parser(spec.get('parser')):
            return True
        return 'parser' in spec and is_variable(spec['parser'])
    if spec in ('*', 'v'):
        return True
    qn = getattr(spec, '__qualname__', '') if callable(spec) else ''
    return qn.endswith('parse_length_prefixed_bytes') or qn == 'UUID.parse_uuid' or (callable(spec) and is_rest_parser(spec))


def count_variables(fields) -> List[str]:
    """kinds of the control quantities of a field table, in layout order: 'n' (array count) or 'l' (length).
    (variable fields inside arrays take one length per table, reused for every item)"""
    out = []
    for f in fields:
        if isinstance(f, list):
            out.append('n')
            for _, spec in f:
                out.extend(_vars_of(spec))
        else:
            out.extend(_vars_of(f[1]))
    return out


def _vars_of(spec) -> List[str]:
    sub = nested_fields(spec) if callable(spec) else None
    if sub is not None:
        return count_variables(sub)
    if callable(spec) and getattr(spec, '__qualname__', '') == 'UUID.parse_uuid':
        return ['u']
    if isinstance(spec, dict) and 'size' not in spec and callable(spec.get('parser')) and is_rest_parser(spec['parser']):
        return [('r', tuple(rest_lengths(spec)))]
    return ['l'] if is_variable(spec) else []


_OVERRIDE = [None]     # family hook: (field_name, spec, shape) -> slots or None


def layout(fields, shape: List[int], consume: bool = False) -> List[Slot]:
    if not consume:
        shape = list(shape)
    slots: List[Slot] = []
    ov = _OVERRIDE[0]
    for f in fields:
        if isinstance(f, list):
            n = shape.pop(0)
            slots.append(Slot('const', n))
            nvars = sum(len(_vars_of(spec)) for _, spec in f)
            lens = [shape.pop(0) for _ in range(nvars)]
            for _ in range(n):
                ls = list(lens)
                for _, spec in f:
                    slots.extend(field_slots(spec, ls, slots))
        else:
            o = ov(f[0], f[1], shape) if ov else None
            slots.extend(o if o is not None else field_slots(f[1], shape, slots))
    return slots


def flat_names(fields) -> List[str]:
    out = []
    for f in fields:
        if isinstance(f, list):
            out.extend(n for n, _ in f)
        else:
            out.append(f[0])
    return out


def shapes_for(fields, tier: str) -> List[List[int]]:
    kinds = count_variables(fields)
    if not kinds:
        return [[]]
    if tier == 'quick':
        choices = {'n': [1, 0], 'l': [1, 0], 'u': [2, 16]}

        def pick(k, i):
            if isinstance(k, tuple):
                nz = [v for v in k[1] if v] or [0]
                return nz[0] if i == 0 else (0 if 0 in k[1] else nz[-1])
            return choices[k][i]
        combos = [[pick(k, 0) for k in kinds], [pick(k, 1) for k in kinds]]
    else:
        choices = {'n': [0, 1, 2], 'l': [0, 2, 3], 'u': [2, 16]}
        combos = [list(c) for c in itertools.product(*[(list(k[1])[:4] if isinstance(k, tuple) else choices[k]) for k in kinds])]
        if len(combos) > 9:
            combos = combos[:: max(1, len(combos) // 9)][:9]
    out = []
    for c in combos:
        if c not in out:
            out.append(c)
    return out


# ----------------------------------------------------------------------------------------------
# value equality used by the oracle (DESIGN 3.0: ints ==, byte-likes / Address by bytes())
# ----------------------------------------------------------------------------------------------
def veq(a, b) -> bool:
    if isinstance(a, (list, tuple)) and isinstance(b, (list, tuple)):
        return len(a) == len(b) and all(veq(x, y) for x, y in zip(a, b))
    if isinstance(a, int) and isinstance(b, int):
        return int(a) == int(b)
    if isinstance(a, (bytes, bytearray)) or hasattr(type(a), '__bytes__'):
        try:
            return bytes(a) == bytes(b)
        except TypeError:
            return False
    return a == b


# ----------------------------------------------------------------------------------------------
# families
# ----------------------------------------------------------------------------------------------
class Family:
    name = ''

    def override(self, field_name, spec, shape):
        return None

    def classes(self) -> Dict[Any, type]:
        raise NotImplementedError

    def fields(self, cls):
        return cls.fields

    def wrap(self, key, params: bytes) -> bytes:
        raise NotImplementedError

    def parse(self, data: bytes):
        raise NotImplementedError

    def build(self, cls, vals: dict, parsed):
        return cls(**vals)

    def tobytes(self, key, p) -> bytes:
        return bytes(p)

    def label(self, key, cls) -> str:
        return cls.__name__


class HciCmd(Family):
    name = 'hcicmd'
    kernels = ('bumble.hci.HCI_Packet.from_bytes', 'bumble.hci.HCI_Command.from_bytes', 'bumble.hci.HCI_Command.from_parameters',
               'bumble.hci.HCI_Command.__bytes__', 'bumble.hci.HCI_Object.parse_field', 'bumble.hci.HCI_Object.serialize_field',
               'bumble.hci.HCI_Object.dict_and_offset_from_bytes', 'bumble.hci.HCI_Object.dict_to_bytes')

    def classes(self):
        return {k: c for k, c in hci.HCI_Command.command_classes.items() if 'from_parameters' not in c.__dict__}

    def wrap(self, key, params):
        return bytes([1, key & 0xFF, key >> 8, len(params)]) + params

    def parse(self, data):
        return hci.HCI_Packet.from_bytes(data)


class HciEvt(Family):
    name = 'hcievt'
    kernels = ('bumble.hci.HCI_Packet.from_bytes', 'bumble.hci.HCI_Event.from_bytes', 'bumble.hci.HCI_Event.from_parameters',
               'bumble.hci.HCI_Event.__bytes__', 'bumble.hci.HCI_Object.parse_field', 'bumble.hci.HCI_Object.serialize_field')

    def classes(self):
        return {k: c for k, c in hci.HCI_Event.event_classes.items()
                if c is not hci.HCI_Command_Complete_Event and k not in (hci.HCI_LE_META_EVENT, hci.HCI_VENDOR_EVENT)}

    def wrap(self, key, params):
        return bytes([4, key, len(params)]) + params

    def parse(self, data):
        return hci.HCI_Packet.from_bytes(data)


class HciLe(HciEvt):
    name = 'hcile'
    kernels = HciEvt.kernels + ('bumble.hci.HCI_Extended_Event.from_parameters', 'bumble.hci.HCI_Extended_Event.parameters')

    def classes(self):
        return dict(hci.HCI_LE_Meta_Event.subevent_classes)

    def wrap(self, key, params):
        return bytes([4, hci.HCI_LE_META_EVENT, len(params) + 1, key]) + params


class HciCc(HciEvt):
    """Command Complete, one per sync command: return parameters parsed by the command's class"""
    name = 'hcicc'
    kernels = HciEvt.kernels + ('bumble.hci.HCI_Command_Complete_Event.from_parameters', 'bumble.hci.HCI_SyncCommand.parse_return_parameters',
                                'bumble.hci.HCI_ReturnParameters.from_parameters')

    def classes(self):
        return {k: c for k, c in hci.HCI_Command.command_classes.items()
                if isinstance(c, type) and issubclass(c, hci.HCI_SyncCommand) and hasattr(c, 'return_parameters_class')}

    def fields(self, cls):
        return cls.return_parameters_class.fields

    def wrap(self, key, params):
        return bytes([4, hci.HCI_COMMAND_COMPLETE_EVENT, len(params) + 3, 1, key & 0xFF, key >> 8]) + params

    def label(self, key, cls):
        return 'CC_' + cls.__name__


class Att(Family):
    name = 'att'
    kernels = ('bumble.att.ATT_PDU.from_bytes', 'bumble.att.ATT_PDU.__bytes__', 'bumble.att.ATT_PDU.payload',
               'bumble.hci.HCI_Object.dict_and_offset_from_bytes', 'bumble.hci.HCI_Object.dict_to_bytes')

    def classes(self):
        from bumble import att
        # classes that re-parse a raw field in __post_init__ have value-dependent layouts: hand-written in c18.py
        return {int(k): c for k, c in att.ATT_PDU.pdu_classes.items() if '__post_init__' not in c.__dict__}

    def wrap(self, key, params):
        return bytes([key]) + params

    def parse(self, data):
        from bumble import att
        return att.ATT_PDU.from_bytes(data)


class Smp(Family):
    name = 'smp'
    kernels = ('bumble.smp.SMP_Command.from_bytes', 'bumble.smp.SMP_Command.__bytes__', 'bumble.smp.SMP_Command.payload',
               'bumble.hci.HCI_Object.dict_and_offset_from_bytes', 'bumble.hci.HCI_Object.dict_to_bytes')

    def classes(self):
        from bumble import smp
        return {int(k): c for k, c in smp.SMP_Command.smp_classes.items()}

    def wrap(self, key, params):
        return bytes([key]) + params

    def parse(self, data):
        from bumble import smp
        return smp.SMP_Command.from_bytes(data)


class L2capSig(Family):
    name = 'l2capsig'
    kernels = ('bumble.l2cap.L2CAP_Control_Frame.from_bytes', 'bumble.l2cap.L2CAP_Control_Frame.__bytes__', 'bumble.l2cap.L2CAP_Control_Frame.payload',
               'bumble.hci.HCI_Object.dict_and_offset_from_bytes', 'bumble.hci.HCI_Object.dict_to_bytes')

    def classes(self):
        from bumble import l2cap
        return {int(k): c for k, c in l2cap.L2CAP_Control_Frame.classes.items()}

    def wrap(self, key, params):
        return bytes([key, 0x5C, len(params) & 0xFF, len(params) >> 8]) + params

    def parse(self, data):
        from bumble import l2cap
        return l2cap.L2CAP_Control_Frame.from_bytes(data)

    def build(self, cls, vals, parsed):
        return cls(identifier=parsed.identifier, **vals)

    def override(self, field_name, spec, shape):
        if field_name == 'psm':
            # variable-length PSM: octets continue while the previous one is odd; two-octet form = second octet even
            return [Slot('sym'), Slot('sym', mul=2, top=127)]
        return None


class Avdtp(Family):
    name = 'avdtp'
    kernels = ('bumble.avdtp.Message.create', 'bumble.avdtp.Message.payload', 'bumble.hci.HCI_Object.dict_and_offset_from_bytes', 'bumble.hci.HCI_Object.dict_to_bytes')

    def classes(self):
        from bumble import avdtp
        return {(int(sig), int(mt)): c for sig, d in avdtp.Message.subclasses.items() for mt, c in d.items()}

    def wrap(self, key, params):
        return bytes(params)

    def parse(self, data):
        raise NotImplementedError

    def label(self, key, cls):
        return cls.__name__

    def override(self, field_name, spec, shape):
        # AVDTP SEIDs occupy the six most significant bits of their octet, the two low bits are RFA
        if field_name == 'capabilities':
            raise NotImplementedError('AVDTP capability lists have value-dependent layouts: hand-written in c18.py')
        if field_name.endswith('_seids'):
            return [Slot('sym', mul=4, top=63) for _ in range(shape.pop(0))]
        if field_name.endswith('_seid'):
            return [Slot('sym', mul=4, top=63)]
        return None


class AvrcpCmd(Family):
    name = 'avrcpcmd'
    kernels = ('bumble.avrcp.Command.from_bytes', 'bumble.avrcp.Command.__bytes__', 'bumble.hci.HCI_Object.dict_and_offset_from_bytes', 'bumble.hci.HCI_Object.dict_to_bytes')

    def classes(self):
        from bumble import avrcp
        return {int(k): c for k, c in avrcp.Command.subclasses.items()}

    def wrap(self, key, params):
        return bytes([key]) + params

    def parse(self, data):
        from bumble import avrcp
        return avrcp.Command.from_bytes(data[0], data[1:])

    def tobytes(self, key, p):
        return bytes([key]) + bytes(p)


class AvrcpRsp(AvrcpCmd):
    name = 'avrcprsp'
    kernels = ('bumble.avrcp.Response.from_bytes', 'bumble.avrcp.Response.from_parameters', 'bumble.avrcp.Response.__bytes__', 'bumble.hci.HCI_Object.dict_and_offset_from_bytes', 'bumble.hci.HCI_Object.dict_to_bytes')

    def classes(self):
        from bumble import avrcp
        return {int(k): c for k, c in avrcp.Response.subclasses.items() if c.from_parameters.__func__ is avrcp.Response.from_parameters.__func__}

    def parse(self, data):
        from bumble import avrcp
        return avrcp.Response.from_bytes(data[1:], avrcp.PduId(data[0]))


class AvrcpEvt(Family):
    name = 'avrcpevt'
    kernels = ('bumble.avrcp.Event.from_bytes', 'bumble.avrcp.Event.__bytes__', 'bumble.hci.HCI_Object.dict_and_offset_from_bytes', 'bumble.hci.HCI_Object.dict_to_bytes')

    def classes(self):
        from bumble import avrcp
        return {int(k): c for k, c in avrcp.Event.subclasses.items()}

    def wrap(self, key, params):
        return bytes([key]) + params

    def parse(self, data):
        from bumble import avrcp
        return avrcp.Event.from_bytes(data)


FAMILIES: Dict[str, Family] = {f.name: f for f in (HciCmd(), HciEvt(), HciLe(), HciCc(), Att(), Smp(), L2capSig(), Avdtp(), AvrcpCmd(), AvrcpRsp(), AvrcpEvt())}


# ----------------------------------------------------------------------------------------------
# the runtime oracle shared by all generated conditions
# ----------------------------------------------------------------------------------------------
def roundtrip(fam: str, key, params: List[int]) -> bool:
    """well-formed bytes -> packet -> (fields) -> fresh packet built from those fields -> bytes -> packet:
    bytes identical, class identical, every field equal."""
    f = FAMILIES[fam]
    cls = f.classes()[key]
    from bumble import core as _core
    del _core.UUID.UUIDS[8:]       # keep the process-wide UUID registry small (history is checked separately in C18)
    data = f.wrap(key, bytes(params))
    p1 = f.parse(data) if fam != 'avdtp' else None
    if fam == 'hcicc':
        if type(p1) is not hci.HCI_Command_Complete_Event or p1.command_opcode != key:
            return False
        rp1 = p1.return_parameters
        rpc = cls.return_parameters_class
        if issubclass(rpc, hci.HCI_StatusReturnParameters) and rpc is not hci.HCI_StatusReturnParameters and params[0] != 0:
            # error status: by design only the status is decoded (the other return parameters are not
            # valid); the packet still carries its bytes, and status-only packets round-trip
            if type(rp1) is not hci.HCI_StatusReturnParameters or int(rp1.status) != params[0] or bytes(p1) != data:
                return False
            short = f.wrap(key, bytes(params[:1]))
            p2 = hci.HCI_Command_Complete_Event(num_hci_command_packets=1, command_opcode=key,
                                                return_parameters=hci.HCI_StatusReturnParameters(status=rp1.status))
            return bytes(p2) == short and bytes(f.parse(short)) == short
        if type(rp1) is not rpc:
            return False
        names = flat_names(f.fields(cls))
        vals = {n: getattr(rp1, n) for n in names}
        rp2 = cls.return_parameters_class(**vals)
        p2 = hci.HCI_Command_Complete_Event(num_hci_command_packets=p1.num_hci_command_packets, command_opcode=key, return_parameters=rp2)
        b2 = bytes(p2)
        if b2 != data or bytes(p1) != data:
            return False
        p3 = f.parse(b2)
        return type(p3.return_parameters) is type(rp1) and all(veq(getattr(p3.return_parameters, n), vals[n]) for n in names)
    if fam == 'avdtp':
        from bumble import avdtp
        sig, mt = avdtp.SignalIdentifier(key[0]), avdtp.Message.MessageType(key[1])
        p1 = avdtp.Message.create(sig, mt, data)
        if type(p1) is not cls or p1.payload != data:
            return False
        names = flat_names(cls.fields)
        vals = {n: getattr(p1, n) for n in names}
        p2 = cls(**vals)
        if p2.payload != data or p2.signal_identifier != sig or p2.message_type != mt:
            return False
        p3 = avdtp.Message.create(sig, mt, p2.payload)
        return type(p3) is cls and all(veq(getattr(p3, n), vals[n]) for n in names)
    if type(p1) is not cls:
        return False
    if f.tobytes(key, p1) != data:
        return False
    names = flat_names(f.fields(cls))
    vals = {n: getattr(p1, n) for n in names}
    p2 = f.build(cls, vals, p1)
    b2 = f.tobytes(key, p2)
    if b2 != data:
        return False
    p3 = f.parse(b2)
    return type(p3) is cls and all(veq(getattr(p3, n), vals[n]) for n in names)


# ----------------------------------------------------------------------------------------------
# condition generation
# ----------------------------------------------------------------------------------------------
def thin_reps(slots: List[Slot], tier: str) -> List[Slot]:
    """bound the product of representative tuples: <= ~48 combinations in the quick tier, <= ~600 in the thorough tier"""
    limit = 48 if tier == 'quick' else 600
    reps = [s for s in slots if s.kind == 'reps']
    k = max((len(s.reps) for s in reps), default=0)
    while k > 2:
        prod = 1
        for s in reps:
            prod *= min(len(s.reps), k)
        if prod <= limit:
            break
        k -= 1
    out = []
    for s in slots:
        if s.kind == 'reps' and len(s.reps) > k:
            keep = [s.reps[0]] + list(s.reps[-(k - 1):]) if k > 1 else [s.reps[0]]
            out.append(Slot('reps', reps=keep))
        else:
            out.append(s)
    return out


def make_fn(name: str, fam: str, key, slots: List[Slot], oracle=None):
    """emit and exec the harness function for one (class, shape)"""
    params, pre, body, items = [], [], [], []
    for i, s in enumerate(slots):
        if s.kind == 'sym':
            params.append(f'x{i}: int')
            pre.append(f'0 <= x{i} <= {s.top}')
            items.append(f'[x{i}]' if s.mul == 1 else f'[x{i} * {s.mul}]')
        elif s.kind == 'const':
            items.append(f'[{s.val}]')
        else:
            params.append(f'i{i}: int')
            pre.append(f'0 <= i{i} < {len(s.reps)}')
            for j, r in enumerate(s.reps):
                kw = 'if' if j == 0 else 'elif'
                if j == len(s.reps) - 1 and j > 0:
                    body.append(f'    else:\n        r{i} = {list(r)!r}')
                else:
                    body.append(f'    {kw} i{i} == {j}:\n        r{i} = {list(r)!r}')
            items.append(f'r{i}')
    # merge adjacent literal items to keep the source small
    expr = ' + '.join(items) if items else '[]'
    src = (f'def {name}({", ".join(params)}) -> bool:\n' + '\n'.join(body) + ('\n' if body else '') +
           f'    return _roundtrip({fam!r}, {key!r}, {expr})\n')
    ns = {'_roundtrip': oracle or roundtrip}
    exec(compile(src, f'<gencodec {name}>', 'exec'), ns)
    fn = ns[name]
    fn.__module__ = 'vf.gencodec'
    fn._source = src
    # group the preconditions into lines of <= 12 conjuncts
    pre_lines = [' and '.join(pre[i:i + 12]) for i in range(0, len(pre), 12)]
    return fn, pre_lines


def conditions(families: List[str], timeout=(15.0, 60.0), oracle=None, prefix='', family=None, kernels=None, bounds=None, tiers_filter=None) -> List[Cond]:
    out: List[Cond] = []
    skipped = []
    for fam in families:
        f = FAMILIES[fam]
        for key, cls in sorted(f.classes().items()):
            fields = f.fields(cls)
            _OVERRIDE[0] = f.override
            for tier in ('quick', 'thorough'):
                for shape in shapes_for(fields, tier):
                    try:
                        slots = layout(fields, shape)
                    except NotImplementedError as e:
                        skipped.append((cls.__name__, str(e)))
                        break
                    if len(slots) > 250:   # does not fit an HCI parameter block
                        continue
                    tag = 's' + '_'.join(map(str, shape)) if shape else 's'
                    thin_q, thin_t = thin_reps(slots, 'quick'), thin_reps(slots, 'thorough')
                    differs = [len(a.reps or ()) for a in thin_q] != [len(a.reps or ()) for a in thin_t]
                    slots = thin_q if tier == 'quick' else thin_t
                    if differs and tier == 'quick':
                        tag += 'q'
                    name = f'{prefix}{fam}_{f.label(key, cls)}_{tag}'
                    same = next((c for c in out if c.name == name), None)
                    if same is not None:
                        same.tiers = tuple(sorted(set(same.tiers) | {tier}))
                        continue
                    fn, pre = make_fn(name.replace('-', '_'), fam, key, slots, oracle)
                    nsym = sum(1 for s in slots if s.kind != 'const')
                    out.append(Cond(name=name, fn=fn, pre=pre, family=family or fam, tiers=(tier,), timeout=timeout, kernels=kernels or f.kernels,
                                    bounds=bounds or f'{fam}: every registered class; control bytes (array counts, length bytes) fixed per shape '
                                           f'(quick: 0/1, thorough: 0..3), all other parameter bytes symbolic 0..255, enum/flag bytes over representatives'))
    conditions.skipped = skipped
    return out
