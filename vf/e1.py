"""Engine E1: CrossHair (symbolic execution of the real /repo code, z3 deciding each path) driven
in-process, one freshly forked process per condition.  See DESIGN.md section 2.2.

A *condition* = one harness function (plain Python, returns True iff the property holds on that
run) + a precondition (bounds) + optional fixed (concrete) keyword arguments.  For each condition a
tiny wrapper module with a PEP-316 contract is written to a scratch directory and handed to
crosshair.core.analyze_function.
"""
from __future__ import annotations

import dataclasses
import hashlib
import importlib
import importlib.util
import inspect
import json
import multiprocessing as mp
import os
import re
import subprocess
import sys
import tempfile
import time
import traceback
from typing import Any, Callable, Dict, List, Optional, Sequence, Tuple

VERIF = os.path.dirname(os.path.dirname(os.path.abspath(__file__)))
REPO = os.environ.get('VERIF_REPO', '/repo')
EXIT_OK, EXIT_VIOLATION, EXIT_HARNESS = 0, 1, 3


# ----------------------------------------------------------------------------------------------
# condition description
# ----------------------------------------------------------------------------------------------
@dataclasses.dataclass
class Cond:
    name: str                       # unique within the property
    fn: Callable                    # harness function (module-level or generated)
    pre: List[str]                  # precondition lines over the symbolic argument names
    family: str = ''                # harness family (for twins/canaries/evidence grouping)
    fixed: Dict[str, Any] = dataclasses.field(default_factory=dict)   # concrete kwargs
    bounds: str = ''                # human readable bounds of this condition
    timeout: Tuple[float, float] = (10.0, 60.0)    # CPU seconds per tier (quick, thorough)
    tiers: Tuple[str, ...] = ('quick', 'thorough')
    twin: bool = False              # also run the reachability twin (post: False must be violated)
    canaries: List[Tuple[str, Callable[[], None]]] = dataclasses.field(default_factory=list)
    kernels: Tuple[str, ...] = ()   # qualified names of the real functions this condition runs
    weight: int = 1

    def sym_params(self) -> List[Tuple[str, str]]:
        sig = inspect.signature(self.fn)
        out = []
        for p in sig.parameters.values():
            if p.name in self.fixed:
                continue
            ann = p.annotation
            if ann is inspect.Parameter.empty:
                raise TypeError(f'{self.name}: parameter {p.name} lacks an annotation')
            out.append((p.name, ann if isinstance(ann, str) else ann.__name__))
        return out


_REGISTRY: Dict[str, List[Cond]] = {}


def _expand(grid: Dict[str, Sequence[Any]]):
    import itertools
    keys = list(grid)
    for vals in itertools.product(*[grid[k] for k in keys]):
        yield dict(zip(keys, vals))


def harness(pre: Sequence[str] | str = (), grid: Optional[Dict[str, Sequence[Any]]] = None, grids=None, **kw):
    """decorator: register a module-level harness function as one condition (or, with grid=, one
    condition per combination of the listed concrete values: a partition of the space, each part
    decided separately) of its module.  grids=[(tiers, grid), ...] gives different partitions per tier."""
    def deco(fn):
        pres = [pre] if isinstance(pre, str) else list(pre)
        base = kw.pop('name', fn.__name__)
        specs = grids if grids is not None else [(kw.pop('tiers', ('quick', 'thorough')), grid)]
        for tiers, g in specs:
            tag = '' if len(specs) == 1 else ('q' if tuple(tiers) == ('quick',) else 't' if tuple(tiers) == ('thorough',) else '')
            if not g:
                _REGISTRY.setdefault(fn.__module__, []).append(Cond(name=base + ('.' + tag if tag else ''), fn=fn, pre=pres, tiers=tuple(tiers), **kw))
                continue
            for fixed in _expand(g):
                nm = base + ('.' + tag if tag else '') + '@' + ','.join(f'{k}={v}' for k, v in fixed.items())
                _REGISTRY.setdefault(fn.__module__, []).append(Cond(name=nm, fn=fn, pre=pres, fixed=dict(fixed), tiers=tuple(tiers), **kw))
        return fn
    return deco


def registered(module_name: str) -> List[Cond]:
    return list(_REGISTRY.get(module_name, []))


# ----------------------------------------------------------------------------------------------
# wrapper generation
# ----------------------------------------------------------------------------------------------
def wrapper_source(c: Cond, prop: str, extra_pre: Sequence[str] = (), post: str = '_') -> str:
    params = c.sym_params()
    sig = ', '.join(f'{n}: {t}' for n, t in params)
    call = ', '.join([f'{n}={n}' for n, _ in params] + [f'{k}={v!r}' for k, v in c.fixed.items()])
    pre = ''.join(f'    pre: {p}\n' for p in list(c.pre) + list(extra_pre))
    return (
        'from vf import props as _props\n'
        f'_c = _props.find({prop!r}, {c.name!r})\n'
        '_f = _c.fn\n'
        'globals().update({k: v for k, v in _c.fn.__globals__.items() if not k.startswith("__")})\n'
        'globals().update(_c.fixed)\n'
        f'def w({sig}) -> bool:\n'
        '    """\n'
        f'{pre}'
        f'    post: {post}\n'
        '    """\n'
        f'    return _f({call})\n'
    )


def _parse_call(message: str) -> Optional[Dict[str, Any]]:
    """extract the counterexample's arguments from CrossHair's 'when calling w(...)' text"""
    i = message.find('when calling w(')
    if i < 0:
        return None
    s = message[i + len('when calling '):]
    j = s.find(' (which returns')
    if j >= 0:
        s = s[:j]
    j = s.find(' with ')
    captured = {}

    def w(*a, **k):
        captured['a'], captured['k'] = a, k
    for cand in ([s] if j < 0 else [s, s[:j]]):
        try:
            eval(cand, {'w': w, 'True': True, 'False': False, 'None': None, 'inf': float('inf'), 'nan': float('nan')})
            return captured
        except Exception:
            continue
    return None


# ----------------------------------------------------------------------------------------------
# child: analyse one condition under CrossHair
# ----------------------------------------------------------------------------------------------
def _child(conn, prop: str, tier: str, c: Cond, scratch: str, extra_pre, post, timeout, canary):
    t0 = time.perf_counter()
    out = {'name': c.name, 'msgs': [], 'paths': 0, 'solver_calls': 0, 'solver_s': 0.0, 'error': None}
    try:
        import crosshair.core as cc
        from crosshair.core import analyze_function, run_checkables
        from crosshair.options import AnalysisOptionSet
        import z3
        if canary is not None:
            dict(c.canaries)[canary]()
        # count paths and solver time
        n = [0]
        orig_attempt = cc.attempt_call

        def counted(*a, **k):
            n[0] += 1
            return orig_attempt(*a, **k)
        cc.attempt_call = counted
        sc = [0, 0]
        orig_check = z3.Solver.check

        def timed(self, *a):
            t = time.perf_counter_ns()
            try:
                return orig_check(self, *a)
            finally:
                sc[0] += 1
                sc[1] += time.perf_counter_ns() - t
        z3.Solver.check = timed
        src = wrapper_source(c, prop, extra_pre, post)
        tag = hashlib.sha1((c.name + post + repr(extra_pre) + str(canary)).encode()).hexdigest()[:12]
        path = os.path.join(scratch, f'w_{tag}.py')
        with open(path, 'w') as f:
            f.write(src)
        spec = importlib.util.spec_from_file_location(f'w_{tag}', path)
        mod = importlib.util.module_from_spec(spec)
        sys.modules[f'w_{tag}'] = mod
        spec.loader.exec_module(mod)
        opts = AnalysisOptionSet(per_condition_timeout=timeout, per_path_timeout=timeout, report_all=True)
        msgs = run_checkables(analyze_function(mod.w, opts))
        out['msgs'] = [(m.state.name, m.message) for m in msgs]
        out['paths'], out['solver_calls'], out['solver_s'] = n[0], sc[0], sc[1] / 1e9
    except BaseException as e:   # noqa: report anything, including CrossHair control-flow leaks
        out['error'] = ''.join(traceback.format_exception_only(type(e), e)).strip()[:500]
    out['wall_s'] = time.perf_counter() - t0
    try:
        conn.send(out)
        conn.close()
    finally:
        os._exit(0)


@dataclasses.dataclass
class Job:
    cond: Cond
    kind: str                  # 'main' | 'twin' | 'canary'
    extra_pre: Tuple[str, ...] = ()
    canary: Optional[str] = None
    timeout: float = 10.0
    excluded: Tuple[str, ...] = ()      # ids of known findings excluded so far
    result: Optional[dict] = None


def run_jobs(prop: str, tier: str, jobs: List[Job], scratch: str, workers: int, log=None) -> None:
    """run all jobs, each in its own forked process, at most `workers` at a time"""
    ctx = mp.get_context('fork')
    pending = list(jobs)
    running: List[Tuple[Any, Any, Job, float]] = []
    while pending or running:
        while pending and len(running) < workers:
            j = pending.pop(0)
            parent, child = ctx.Pipe(duplex=False)
            post = 'False' if j.kind == 'twin' else '_'
            p = ctx.Process(target=_child, args=(child, prop, tier, j.cond, scratch, j.extra_pre, post, j.timeout, j.canary))
            p.start()
            child.close()
            running.append((p, parent, j, time.time()))
        still = []
        for p, parent, j, started in running:
            if parent.poll(0):
                try:
                    j.result = parent.recv()
                except EOFError:
                    j.result = {'name': j.cond.name, 'msgs': [], 'error': 'child died', 'paths': 0, 'solver_calls': 0, 'solver_s': 0.0, 'wall_s': time.time() - started}
                p.join()
                if log:
                    log(j)
            elif not p.is_alive():
                if parent.poll(0.2):
                    j.result = parent.recv()
                else:
                    j.result = {'name': j.cond.name, 'msgs': [], 'error': f'child exited {p.exitcode}', 'paths': 0, 'solver_calls': 0, 'solver_s': 0.0, 'wall_s': time.time() - started}
                p.join()
                if log:
                    log(j)
            elif time.time() - started > j.timeout * 4 + 60:
                p.kill()
                p.join()
                j.result = {'name': j.cond.name, 'msgs': [], 'error': 'hard wall-clock limit', 'paths': 0, 'solver_calls': 0, 'solver_s': 0.0, 'wall_s': time.time() - started}
                if log:
                    log(j)
            else:
                still.append((p, parent, j, started))
        running = still
        if running:
            time.sleep(0.02)


# ----------------------------------------------------------------------------------------------
# replay on plain CPython (fresh interpreter, no tracer, no shim)
# ----------------------------------------------------------------------------------------------
def replay_file(path: str) -> Tuple[bool, str]:
    """returns (reproduced, detail)"""
    env = dict(os.environ)
    env['PYTHONPATH'] = REPO + os.pathsep + VERIF + os.pathsep + env.get('PYTHONPATH', '')
    r = subprocess.run([sys.executable, '-m', 'vf.replay', path], cwd=VERIF, env=env,
                       capture_output=True, text=True, timeout=600)
    last = (r.stdout.strip().splitlines() or [''])[-1]
    if last.startswith('REPRODUCED'):
        return True, last
    if last.startswith('NOT-REPRODUCED'):
        return False, last
    return False, 'REPLAY-ERROR ' + (r.stderr.strip().splitlines() or ['?'])[-1][:300]


def classify(result: dict) -> Tuple[str, Optional[str]]:
    """-> ('confirmed'|'cex'|'inconclusive', detail)"""
    if result.get('error'):
        return 'inconclusive', 'engine: ' + result['error']
    msgs = result['msgs']
    if not msgs:
        return 'inconclusive', 'no verdict'
    states = [s for s, _ in msgs]
    for s, m in msgs:
        if s in ('POST_FAIL', 'POST_ERR', 'EXEC_ERR', 'PRE_INVALID'):
            return 'cex', m
    if all(s == 'CONFIRMED' for s in states):
        return 'confirmed', None
    return 'inconclusive', '; '.join(f'{s}: {m[:120]}' for s, m in msgs)


# ----------------------------------------------------------------------------------------------
class untraced:
    """run harness set-up code that only handles concrete values outside the CrossHair tracer (about 50x
    faster); a no-op on plain CPython (replay).  Never pass symbolic values into such a block."""

    def __enter__(self):
        self._cm = None
        try:
            from crosshair.tracers import NoTracing, is_tracing
            if is_tracing():
                self._cm = NoTracing()
                self._cm.__enter__()
        except ImportError:
            pass
        return self

    def __exit__(self, *a):
        if self._cm is not None:
            self._cm.__exit__(*a)
        return False


def concrete(x, lo, hi):
    """case split of a symbolic control value over its (small) range lo..hi: each comparison is a solver
    fork, so every path continues with one concrete value and the paths cover the range exhaustively
    (crosshair.realize would pick model values without an exhaustible decision tree)"""
    for v in range(lo, hi):
        if x == v:
            return v
    return hi


# ----------------------------------------------------------------------------------------------
class Stalled(BaseException):
    """the code under test did not return within its CPU budget (a busy loop); BaseException so that
    `except Exception` handlers in the code under test cannot swallow it"""


class cpu_deadline:
    """bound the CPU time (not wall time: robust against machine load) of a call into the code under test;
    raises Stalled inside the block when exceeded.  A path that stalls becomes a counterexample (the replay on
    plain CPython has to stall too) instead of an inconclusive time-out."""

    def __init__(self, seconds: float = 20.0):
        self.seconds = seconds

    def __enter__(self):
        import signal

        def on_alarm(signum, frame):
            raise Stalled()
        self._old = signal.signal(signal.SIGVTALRM, on_alarm)
        signal.setitimer(signal.ITIMER_VIRTUAL, self.seconds)
        return self

    def __exit__(self, *a):
        import signal
        signal.setitimer(signal.ITIMER_VIRTUAL, 0)
        signal.signal(signal.SIGVTALRM, self._old)
        return False
