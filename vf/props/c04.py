"""C04 — outbound data obeys controller buffer credits, stays FIFO and never stalls; pipe ordering.

Kernels (real code, /repo): bumble.host.DataPacketQueue.{enqueue,_check_queue,on_packets_completed,
flush,drain}, bumble.host.Host.on_hci_number_of_completed_packets_event /
on_hci_disconnection_complete_event (queue wiring), bumble.utils.FlowControlAsyncPipe.
"""
import collections

from vf.e1 import harness, untraced, concrete as C
from vf import flags as _flags
from vf import detloop

from bumble import hci
from bumble.host import DataPacketQueue, Host
from bumble import utils

K_QUEUE = ('bumble.host.DataPacketQueue.enqueue', 'bumble.host.DataPacketQueue._check_queue',
           'bumble.host.DataPacketQueue.on_packets_completed', 'bumble.host.DataPacketQueue.flush',
           'bumble.host.DataPacketQueue.drain')

ASSUMPTIONS = [
    'over-reported completions complete at most what is outstanding on that handle; reports for unknown handles change nothing (DESIGN 3.0)',
    'queue pre-states are arbitrary states satisfying the invariant I (in_flight = sum per connection <= max, no-stall, queued-completed = in_flight+waiting)',
    'asyncio replaced by the deterministic micro event loop vf/detloop.py',
]


# ------------------------------------------------------------------------------------------
def build(max_in_flight, fl, waiting_handles):
    """arbitrary invariant-satisfying queue state: fl[h] packets in flight on handle h,
    waiting packets ('pkt', i) for handle waiting_handles[i], oldest first"""
    sent = []
    q = DataPacketQueue(max_packet_size=27, max_in_flight=max_in_flight, send=sent.append)
    total = 0
    for h, n in enumerate(fl):
        if n > 0:
            st = q._connection_state[h]
            st.in_flight = n
            total += n
    q._in_flight = total
    for i, h in enumerate(waiting_handles):
        q._packets.appendleft((('pkt', i), h))
    q._queued = total + len(waiting_handles)
    q._completed = 0
    return q, sent


def inv(q):
    s = sum(cs.in_flight for cs in q._connection_state.values())
    return (0 <= q._in_flight <= q.max_in_flight and q._in_flight == s
            and all(cs.in_flight >= 0 for cs in q._connection_state.values())
            and (len(q._packets) == 0 or q._in_flight == q.max_in_flight)
            and q._queued - q._completed == q._in_flight + len(q._packets)
            and q.pending == q._in_flight + len(q._packets))


_PRE_STATE = ['1 <= maxf <= 4 and 0 <= f0 and 0 <= f1 and 0 <= f2 and f0 + f1 + f2 <= maxf',
              '0 <= nwait <= 3 and 0 <= w0 < nconn and 0 <= w1 < nconn and 0 <= w2 < nconn',
              'nwait == 0 or f0 + f1 + f2 == maxf', 'nconn == 3 or f2 == 0',
              'nwait >= 1 or w0 == 0', 'nwait >= 2 or w1 == 0', 'nwait >= 3 or w2 == 0']
_GRIDS = [(('quick',), {'maxf': [1, 2], 'nwait': [0, 1, 2], 'nconn': [2]}),
          (('thorough',), {'maxf': [1, 2, 3, 4], 'nwait': [0, 1, 2, 3], 'nconn': [3]})]


def _canary_no_limit():
    def _check_queue(self):
        while self._packets and self._in_flight <= self.max_in_flight:
            packet, h = self._packets.pop()
            self._send(packet)
            self._in_flight += 1
            self._connection_state[h].in_flight += 1
            self._connection_state[h].drained.clear()
    DataPacketQueue._check_queue = _check_queue


def _canary_lifo():
    def _check_queue(self):
        while self._packets and self._in_flight < self.max_in_flight:
            packet, h = self._packets.popleft()
            self._send(packet)
            self._in_flight += 1
            self._connection_state[h].in_flight += 1
            self._connection_state[h].drained.clear()
    DataPacketQueue._check_queue = _check_queue


@harness(pre=_PRE_STATE + ['0 <= handle <= nconn'], family='queue-step', twin=True, kernels=K_QUEUE, grids=[(('quick',), {'nconn': [2]}), (('thorough',), {'nconn': [3]})], timeout=(20, 300),
         bounds='max_in_flight 1..4, 3 connections, <=3 waiting packets with symbolic handles, arbitrary I-state',
         canaries=[('off-by-one-credit', _canary_no_limit)])
def step_enqueue(maxf: int, f0: int, f1: int, f2: int, w0: int, w1: int, w2: int, nwait: int, handle: int, nconn: int) -> bool:
    fl = [f0, f1, f2]
    q, sent = build(maxf, fl, [w0, w1, w2][:nwait])
    if not inv(q):
        return True
    q.enqueue(('pkt', 'new'), handle)
    free = maxf - sum(fl)
    # with a waiting queue there is no free credit (I), so the new packet must wait behind it
    if nwait == 0 and free > 0:
        ok = sent == [('pkt', 'new')] and q._in_flight == sum(fl) + 1 and not q._packets
    else:
        ok = sent == [] and q._packets[0] == (('pkt', 'new'), handle) and len(q._packets) == nwait + 1
    return ok and inv(q)


@harness(pre=_PRE_STATE + ['0 <= count <= maxf + 2 and 0 <= handle <= nconn'], family='queue-step', grids=_GRIDS, timeout=(20, 150),  kernels=K_QUEUE,
         bounds='max_in_flight 1..4, 3 connections, <=3 waiting, completion count 0..6 (incl. over-reports), handle 0..3 (3 = unknown)',
         canaries=[('lifo', _canary_lifo), ('off-by-one-credit', _canary_no_limit)])
def step_completed(maxf: int, f0: int, f1: int, f2: int, w0: int, w1: int, w2: int, nwait: int, count: int, handle: int, nconn: int) -> bool:
    fl = [f0, f1, f2]
    waiting = [w0, w1, w2][:nwait]
    q, sent = build(maxf, fl, waiting)
    if not inv(q):
        return True
    before_completed = q._completed
    q.on_packets_completed(count, handle)
    # ground truth: a report completes at most what is outstanding on that handle
    done = min(count, fl[handle]) if handle < nconn else 0
    free = maxf - (sum(fl) - done)
    expect_sent = [('pkt', i) for i in range(min(nwait, free))]
    ok = sent == expect_sent
    ok = ok and q._completed == before_completed + done
    # per-connection ledger: completed packets leave, sent packets enter
    for h in range(3):
        want = fl[h] - (done if h == handle else 0) + sum(1 for i in range(len(expect_sent)) if waiting[i] == h)
        have = q._connection_state[h].in_flight if h in q._connection_state else 0
        ok = ok and want == have
    return ok and inv(q)


@harness(pre=_PRE_STATE + ['0 <= handle <= nconn'], family='queue-step', grids=_GRIDS, timeout=(20, 150), kernels=K_QUEUE,
         bounds='max_in_flight 1..4, 3 connections, <=3 waiting, flushed handle 0..3 (3 = unknown)')
def step_flush(maxf: int, f0: int, f1: int, f2: int, w0: int, w1: int, w2: int, nwait: int, handle: int, nconn: int) -> bool:
    fl = [f0, f1, f2]
    waiting = [w0, w1, w2][:nwait]
    q, sent = build(maxf, fl, waiting)
    if not inv(q):
        return True
    q.flush(handle)
    kept = [i for i in range(nwait) if waiting[i] != handle]
    released = fl[handle] if handle < nconn else 0
    free = maxf - (sum(fl) - released)
    expect_sent = [('pkt', i) for i in kept[:free]]
    # the other connections' waiting packets must go out as soon as the flush frees buffers
    ok = sent == expect_sent
    ok = ok and all(h != handle for _, h in q._packets)
    ok = ok and handle not in q._connection_state
    return ok and inv(q)


@harness(pre=['1 <= maxf <= 3 and 0 <= f0 <= maxf and 0 <= f1 and f0 + f1 <= maxf', '0 <= count <= 4', '0 <= how <= 1'],
         family='queue-drain', twin=True, kernels=K_QUEUE,
         bounds='drain waiter on handle 0 with 0..3 in flight; then completion(count) or flush')
def drain_finishes(maxf: int, f0: int, f1: int, count: int, how: int) -> bool:
    with detloop.running() as loop:
        q, sent = build(maxf, [f0, f1], [])
        for h, st in q._connection_state.items():
            if st.in_flight == 0:
                st.drained.set()
        if 0 not in q._connection_state:
            return True
        t = loop.create_task(q.drain(0))
        loop.run_ready()
        if f0 == 0:
            return t.done()
        if t.done():
            return True      # (only liveness is claimed)
        if how == 0:
            q.on_packets_completed(count, 0)
            loop.run_ready()
            return t.done() == (count >= f0)
        q.flush(0)
        loop.run_ready()
        return t.done()


# ------------------------------------------------------------------------------------------
# bounded histories from the empty queue: I is reachable-closed, exactly-once, per-connection FIFO
def _apply(q, model, kind, handle, count, seq):
    """model = dict(fl=[..], waiting=[(tag,h)], sent=[], maxf)"""
    if kind == 0:
        tag = ('p', seq)
        q.enqueue(tag, handle)
        model['waiting'].append((tag, handle))
    elif kind == 1:
        q.on_packets_completed(count, handle)
        model['fl'][handle] -= min(count, model['fl'][handle])
    else:
        q.flush(handle)
        model['waiting'] = [(t, h) for t, h in model['waiting'] if h != handle]
        model['fl'][handle] = 0
    while model['waiting'] and sum(model['fl']) < model['maxf']:
        t, h = model['waiting'].pop(0)
        model['fl'][h] += 1
        model['sent'].append(t)


@harness(pre=['1 <= maxf <= 2', '0 <= k1 <= 2 and 0 <= h1 <= 1 and 1 <= c1 <= 2', '0 <= k2 <= 2 and 0 <= h2 <= 1 and 1 <= c2 <= 2',
              '0 <= k3 <= 2 and 0 <= h3 <= 1 and 1 <= c3 <= 2'],
         family='queue-history', kernels=K_QUEUE, timeout=(30, 120), grid={'k1': [0, 1, 2], 'h1': [0, 1], 'k2': [0, 1, 2], 'h2': [0, 1]},
         bounds='histories of 2 enqueues + 3 symbolic operations {enqueue, completed(1..2), flush} on 2 handles, max_in_flight 1..2, from the empty queue')
def history3(maxf: int, k1: int, h1: int, c1: int, k2: int, h2: int, c2: int, k3: int, h3: int, c3: int) -> bool:
    sent = []
    q = DataPacketQueue(27, maxf, sent.append)
    model = {'fl': [0, 0], 'waiting': [], 'sent': [], 'maxf': maxf}
    _apply(q, model, 0, 0, 0, 0)
    _apply(q, model, 0, 1, 0, 1)
    seq = 2
    for k, h, c in ((k1, h1, c1), (k2, h2, c2), (k3, h3, c3)):
        _apply(q, model, k, h, c, seq)
        seq += 1
        if sent != model['sent'] or not inv(q):
            return False
        if [h for _, h in reversed(q._packets)] != [h for _, h in model['waiting']]:
            return False
    return len(set(sent)) == len(sent)


# ------------------------------------------------------------------------------------------
# Host wiring: completion events reach the queue of the handle's transport; disconnection flushes it
class _Sink:
    def __init__(self):
        self.out = []

    def on_packet(self, b):
        self.out.append(b)


def _host_with_queues(n_acl, n_le):
    h = Host()
    sink = _Sink()
    h.hci_sink = sink
    h.acl_packet_queue = DataPacketQueue(27, n_acl, h.send_hci_packet)
    h.le_acl_packet_queue = DataPacketQueue(27, n_le, h.send_hci_packet)
    return h, sink


@harness(pre=['1 <= n_le <= 3 and 1 <= n_acl <= 3 and 1 <= sends <= 4 and 0 <= c0 <= 3 and 0 <= c1 <= 3', '3 <= hx <= 4', '0 <= pos <= 2'],
         family='host-wiring', grid={'n_le': [1, 2], 'n_acl': [2], 'sends': [1, 3], 'c0': [0, 1, 3]}, timeout=(90, 240),
         kernels=('bumble.host.Host.on_hci_number_of_completed_packets_event', 'bumble.host.Host.get_data_packet_queue', 'bumble.host.Host.send_acl_sdu') + K_QUEUE,
         bounds='one LE and one BR/EDR connection, 1..4 one-fragment SDUs on each, one Number_Of_Completed_Packets event with symbolic counts and a third (unknown) handle listed first, second or last (symbolic)')
def host_completion_event(n_le: int, n_acl: int, sends: int, c0: int, c1: int, hx: int, pos: int) -> bool:
    from bumble.core import PhysicalTransport
    from bumble import host as bhost
    h, sink = _host_with_queues(n_acl, n_le)
    a0 = hci.Address('F0:F1:F2:F3:F4:F5')
    h.connections[1] = bhost.Connection(h, 1, a0, PhysicalTransport.LE)
    h.connections[2] = bhost.Connection(h, 2, a0, PhysicalTransport.BR_EDR)
    for i in range(sends):
        h.send_acl_sdu(1, bytes([i, 0xA]))
        h.send_acl_sdu(2, bytes([i, 0xB]))
    le_q, acl_q = h.le_acl_packet_queue, h.acl_packet_queue
    if len(sink.out) != min(sends, n_le) + min(sends, n_acl):
        return False
    entries = [(1, c0), (2, c1)]
    entries.insert(C(pos, 0, 2), (hx, 1))
    ev = hci.HCI_Number_Of_Completed_Packets_Event(connection_handles=[e[0] for e in entries], num_completed_packets=[e[1] for e in entries])
    n0 = len(sink.out)
    h.on_hci_number_of_completed_packets_event(ev)
    d_le = min(c0, min(sends, n_le))
    d_acl = min(c1, min(sends, n_acl))
    exp_le = min(sends, n_le + d_le)
    exp_acl = min(sends, n_acl + d_acl)
    got_le = [p for p in sink.out if p[-1] == 0xA]
    got_acl = [p for p in sink.out if p[-1] == 0xB]
    if [p[-2] for p in got_le] != list(range(exp_le)) or [p[-2] for p in got_acl] != list(range(exp_acl)):
        return False
    return le_q._in_flight <= n_le and acl_q._in_flight <= n_acl and inv(le_q) and inv(acl_q)


@harness(pre=['1 <= n <= 3 and 1 <= s1 <= 4 and 0 <= s2 <= 4', '0 <= status <= 1'], family='host-wiring', twin=True, grid={'n': [1, 2, 3]}, timeout=(20, 120),
         kernels=('bumble.host.Host.on_hci_disconnection_complete_event',) + K_QUEUE,
         bounds='two LE connections sharing n=1..3 buffers; connection 1 has s1 SDUs queued, connection 2 s2; connection 1 is disconnected (status symbolic)')
def host_disconnect_unblocks_other(n: int, s1: int, s2: int, status: int) -> bool:
    from bumble.core import PhysicalTransport
    from bumble import host as bhost
    h, sink = _host_with_queues(1, n)
    a0 = hci.Address('F0:F1:F2:F3:F4:F5')
    h.connections[1] = bhost.Connection(h, 1, a0, PhysicalTransport.LE)
    h.connections[2] = bhost.Connection(h, 2, a0, PhysicalTransport.LE)
    for i in range(s1):
        h.send_acl_sdu(1, bytes([i, 0xA]))
    for i in range(s2):
        h.send_acl_sdu(2, bytes([i, 0xB]))
    q = h.le_acl_packet_queue
    h.on_hci_disconnection_complete_event(hci.HCI_Disconnection_Complete_Event(status=status, connection_handle=1, reason=0x13))
    got_b = [p[-2] for p in sink.out if p[-1] == 0xB]
    if status != 0:
        return 1 in h.connections and got_b == list(range(max(0, min(s2, n - s1)))) and inv(q)
    # connection 1 is gone: all of its packets are discarded, every free buffer goes to connection 2 at once
    return 1 not in h.connections and got_b == list(range(min(s2, n))) and inv(q) and q._in_flight == min(s2, n)


# ------------------------------------------------------------------------------------------
# flow-controlled pipe
def _canary_pipe_lifo():
    async def pump(self):
        while True:
            await self.ready_to_pump.wait()
            if self.can_pump():
                packet = self.queue.pop()
                self.write_to_sink(packet)
                self.queued_bytes -= len(packet)
                if self.drain_sink:
                    await self.drain_sink()
                if self.queued_bytes <= self.threshold and self.source_paused:
                    self.source_paused = False
                    self.resume_source()
    utils.FlowControlAsyncPipe.pump = pump


@harness(pre=['0 <= threshold <= 2', '0 <= o1 <= 3 and 0 <= o2 <= 3 and 0 <= o3 <= 3 and 0 <= o4 <= 3 and 0 <= o5 <= 3 and 0 <= o6 <= 3'],
         family='pipe', kernels=('bumble.utils.FlowControlAsyncPipe.write', 'bumble.utils.FlowControlAsyncPipe.pump',
                                 'bumble.utils.FlowControlAsyncPipe.pause', 'bumble.utils.FlowControlAsyncPipe.resume',
                                 'bumble.utils.FlowControlAsyncPipe.check_pump'),
         timeout=(40, 90), canaries=[('pipe-lifo', _canary_pipe_lifo)],
         grids=[(('quick',), {'o1': [0, 1, 2, 3], 'o2': [0, 1, 2, 3], 'o6': [2]}),
                (('thorough',), {'o1': [0, 1, 2, 3], 'o2': [0, 1, 2, 3], 'o3': [0, 1, 2, 3]})],
         bounds='schedule of 6 symbolic steps from {write next packet (3 packets of 2, 1 and 0 bytes), pause, resume, sink progress (the awaited drain completes)}, threshold 0..2; the pump task runs to quiescence after every step')
def pipe_order(threshold: int, o1: int, o2: int, o3: int, o4: int, o5: int, o6: int) -> bool:
    with detloop.running() as loop:
        got = []
        drains = []

        async def drain_sink():
            f = loop.create_future()
            drains.append(f)
            await f
        pipe = utils.FlowControlAsyncPipe(lambda: None, lambda: None, write_to_sink=got.append, drain_sink=drain_sink, threshold=threshold)
        pipe.start()
        packets = [b'\xa0\xa0', b'\xa1', b'']            # the last one is a zero-length packet
        written = []
        for o in (o1, o2, o3, o4, o5, o6):
            if o == 0:
                if len(written) < len(packets):
                    pipe.write(packets[len(written)])
                    written.append(packets[len(written)])
            elif o == 1:
                pipe.pause()
            elif o == 2:
                pipe.resume()
            elif drains:
                drains.pop(0).set_result(None)
            loop.run_ready()
            if got != written[:len(got)]:
                return False
        # the sink keeps consuming and the pipe is resumed: everything written must come out, in order
        pipe.resume()
        for _ in range(8):
            loop.run_ready()
            while drains:
                drains.pop(0).set_result(None)
                loop.run_ready()
        pipe.stop()
        return got == written and pipe.queued_bytes == 0 and not pipe.queue


# ------------------------------------------------------------------------------------------
# the credit pools the real Host.reset builds from what the controller reports
@harness(pre=['1 <= n_acl <= 3 and 0 <= le_len <= 1 and 0 <= n_le <= 2 and 0 <= kc <= 3 and 0 <= kl <= 3 and 0 <= first <= 1'], family='host-wiring', twin=True, timeout=(150, 400),
         kernels=('bumble.host.Host.reset', 'bumble.host.Host.send_acl_sdu', 'bumble.host.Host.get_data_packet_queue', 'bumble.host.Host.on_hci_number_of_completed_packets_event') + K_QUEUE,
         bounds='the real Host.reset against the real virtual Controller reporting 1..3 BR/EDR ACL buffers and an LE buffer size of 0 or 27 with 0..2 LE buffers (0 in either = one pool shared by both transports); then 0..3 one-fragment PDUs on a BR/EDR link and 0..3 on an LE link (either first): packets in flight never exceed the pool they draw from (shared: both links together <= the BR/EDR count), nothing waits while its pool has a free buffer, and each completion lets exactly one waiting packet of that pool go, in per-link order')
def host_reset_credit_pools(n_acl: int, le_len: int, n_le: int, kc: int, kl: int, first: int) -> bool:
    from bumble import controller as ctl
    from bumble.transport.common import AsyncPipeSink
    n_acl, le_len, n_le, kc, kl, first = C(n_acl, 1, 3), C(le_len, 0, 1), C(n_le, 0, 2), C(kc, 0, 3), C(kl, 0, 3), C(first, 0, 1)
    with untraced():
        with detloop.running() as loop:
            c = ctl.Controller('C')
            c.total_num_acl_data_packets = n_acl
            c.le_acl_data_packet_length = 27 * le_len
            c.total_num_le_acl_data_packets = n_le
            h = Host(c, AsyncPipeSink(c))
            t = loop.create_task(h.reset())
            for _ in range(2000):
                loop.run_ready()
                if t.done() or (not loop.ready and not loop.advance()):
                    break
            if not t.done() or t.exception() is not None:
                return False
            shared = le_len == 0 or n_le == 0
            sent = []

            class Sink:
                def on_packet(self, data):
                    sent.append(bytes(data))
            h.set_packet_sink(Sink())
            CL, LE = 1, 0x40
            h.on_packet(bytes(hci.HCI_Connection_Complete_Event(status=0, connection_handle=CL, bd_addr=hci.Address('C0:C0:C0:C0:C0:C1', hci.Address.PUBLIC_DEVICE_ADDRESS),
                                                                link_type=hci.HCI_Connection_Complete_Event.LinkType.ACL, encryption_enabled=0)))
            h.on_packet(bytes(hci.HCI_LE_Connection_Complete_Event(status=0, connection_handle=LE, role=hci.Role.CENTRAL, peer_address_type=hci.AddressType.PUBLIC_DEVICE,
                                                                   peer_address=hci.Address('E0:E0:E0:E0:E0:E1'), connection_interval=24, peripheral_latency=0, supervision_timeout=100,
                                                                   central_clock_accuracy=0)))
            loop.run_ready()
            if CL not in h.connections or LE not in h.connections:
                return False
            want = {CL: [bytes([0xC0 + i]) for i in range(kc)], LE: [bytes([0xE0 + i]) for i in range(kl)]}
            for handle in ((CL, LE) if first == 0 else (LE, CL)):
                for payload in want[handle]:
                    h.send_l2cap_pdu(handle, 0x40, payload)
            done = {CL: 0, LE: 0}

            def out(handle):
                return [d[9:] for d in sent if d[0] == 2 and (d[1] | (d[2] << 8)) & 0x0FFF == handle]

            def pools_ok():
                fl = {x: len(out(x)) - done[x] for x in (CL, LE)}
                wait = {x: len(want[x]) - len(out(x)) for x in (CL, LE)}
                if any(out(x) != want[x][:len(out(x))] for x in (CL, LE)):
                    return False
                if shared:
                    tot = fl[CL] + fl[LE]
                    return tot <= n_acl and not (tot < n_acl and (wait[CL] or wait[LE]))
                return fl[CL] <= n_acl and fl[LE] <= n_le and not (fl[CL] < n_acl and wait[CL]) and not (fl[LE] < n_le and wait[LE])
            if not pools_ok():
                return False
            for _ in range(kc + kl):
                for x in (CL, LE):
                    if len(out(x)) - done[x] > 0:
                        done[x] += 1
                        h.on_packet(bytes(hci.HCI_Number_Of_Completed_Packets_Event(connection_handles=[x], num_completed_packets=[1])))
                        loop.run_ready()
                        if not pools_ok():
                            return False
            return out(CL) == want[CL] and out(LE) == want[LE]


_flags.int_format_placeholder = True     # log f-strings with symbolic ints are not the subject here (see vf/flags.py)


@harness(pre=['1 <= maxf <= 2 and 2 <= n <= 4 and 1 <= c <= 2'], family='queue-step', twin=True, kernels=K_QUEUE, timeout=(40, 150),
         bounds='a "flow" listener that enqueues a new packet synchronously while older packets of the same connection are still waiting (window 1..2, 2..4 packets queued, completions of 1..2 at a time; all symbolic): the controller receives the packets in the order they were submitted')
def enqueue_from_flow_listener_keeps_order(maxf: int, n: int, c: int) -> bool:
    maxf, n, c = C(maxf, 1, 2), C(n, 2, 4), C(c, 1, 2)
    sent = []
    q = DataPacketQueue(27, maxf, sent.append)
    submitted = []
    extra = [100]

    def on_flow():
        if extra[0] < 102:
            submitted.append(extra[0])
            q.enqueue(extra[0], 1)
            extra[0] += 1
    q.on('flow', on_flow)
    for i in range(n):
        submitted.append(i)
        q.enqueue(i, 1)
    for _ in range(12):
        if len(sent) == len(submitted):
            break
        q.on_packets_completed(c, 1)
    return sent == submitted


def e2_obligations(tier):
    """wide-range verification conditions over the AST of the real source (vf/e2.py, vf/e2k.py)"""
    from vf import e2k
    return [e2k.queue_completed(), e2k.queue_check_iteration()]
