"""C09 — L2CAP channel tables stay exact; closed identifiers are reusable.

Two real ChannelManagers on an in-memory wire, two connections; a symbolic program of operations
(open LE CoC / enhanced CoC / classic, close by either side, refused open, link loss) is run under
the deterministic loop and both sides' tables are compared with the harness' own model.
"""
from vf.e1 import harness, untraced, concrete as C
from vf import flags as _flags
from vf import detloop
from vf.props.l2capstub import Wire

from bumble import l2cap

ASSUMPTIONS = [
    'the operation program and its targets are symbolic integers split by solver forks (each path runs the real code on one concrete program; the finite space is covered exhaustively); channel parameters are concrete here and symbolic in C07',
    'the wire is order-preserving and lossless except for link loss, which drops what is queued for that link',
    'channels are opened from side A; either side closes',
]
K = ('bumble.l2cap.ChannelManager.on_channel_closed', 'bumble.l2cap.ChannelManager.on_disconnection', 'bumble.l2cap.ChannelManager.find_free_le_cids',
     'bumble.l2cap.ChannelManager.find_free_br_edr_cid', 'bumble.l2cap.ChannelManager.next_identifier', 'bumble.l2cap.ChannelManager.create_le_credit_based_channel',
     'bumble.l2cap.ChannelManager.create_enhanced_credit_based_channels', 'bumble.l2cap.ChannelManager.create_classic_channel',
     'bumble.l2cap.ChannelManager.on_l2cap_le_credit_based_connection_request', 'bumble.l2cap.ChannelManager.on_l2cap_credit_based_connection_request',
     'bumble.l2cap.LeCreditBasedChannel.disconnect', 'bumble.l2cap.LeCreditBasedChannel.abort', 'bumble.l2cap.ClassicChannel.disconnect', 'bumble.l2cap.ClassicChannel.abort')
PSM_LE, PSM_CLASSIC, PSM_NONE = 0x80, 0x1001, 0x99


class World:
    def __init__(self, loop, mtu, mps, credits):
        self.loop = loop
        self.w = Wire(handles=(1, 2))
        self.accepted = []          # channels accepted on side B, in order
        spec = l2cap.LeCreditBasedChannelSpec(psm=PSM_LE, mtu=mtu, mps=mps, max_credits=credits)
        self.spec = spec
        self.w.mgr[1].create_le_credit_based_server(spec, handler=self.accepted.append)
        self.w.mgr[1].create_classic_server(l2cap.ClassicChannelSpec(psm=PSM_CLASSIC), handler=self.accepted.append)
        self.accepted_a = []        # channels accepted on side A (opens issued by B)
        self.w.mgr[0].create_le_credit_based_server(spec, handler=self.accepted_a.append)
        self.w.mgr[0].create_classic_server(l2cap.ClassicChannelSpec(psm=PSM_CLASSIC), handler=self.accepted_a.append)
        self.open = []              # (kind, handle, a_channel, b_channel)
        self.alive = {1, 2}
        self.half_open_on_b = False

    def await_(self, coro):
        t = self.loop.create_task(coro)
        ok = self.w.pump(self.loop)
        return t, ok

    def op(self, kind, h, which):
        """returns False when something that must complete did not"""
        w = self.w
        conn = w.conns[0][h]
        if kind in (0, 1, 2, 5):
            if h not in self.alive:
                return True
            n0 = len(self.accepted)
            if kind == 0:
                t, ok = self.await_(w.mgr[0].create_le_credit_based_channel(conn, self.spec))
            elif kind == 1:
                t, ok = self.await_(w.mgr[0].create_enhanced_credit_based_channels(conn, self.spec, 1))
            elif kind == 2:
                t, ok = self.await_(w.mgr[0].create_classic_channel(conn, l2cap.ClassicChannelSpec(psm=PSM_CLASSIC)))
            else:
                t, ok = self.await_(w.mgr[0].create_le_credit_based_channel(conn, l2cap.LeCreditBasedChannelSpec(psm=PSM_NONE)))
            if not ok or not t.done():
                return False            # a waiter left hanging
            if kind == 5:
                return t.exception() is not None and len(self.accepted) == n0
            if t.exception() is not None:
                return False            # opening a channel on a live link must succeed
            a = t.result()[0] if kind == 1 else t.result()
            if len(self.accepted) != n0 + 1:
                return False
            self.open.append(('classic' if kind == 2 else 'le', h, a, self.accepted[-1]))
            return True
        if kind in (3, 4):
            live = [c for c in self.open if c[1] in self.alive]
            if not live:
                return True
            c = live[which % len(live)]
            ch = c[2] if kind == 3 else c[3]
            t, ok = self.await_(ch.disconnect())
            if not ok or not t.done() or t.exception() is not None:
                return False
            self.open.remove(c)
            return True
        if kind == 10:              # no operation (shorter programs in the quick tier)
            return True
        if kind in (7, 8):          # opened by B towards A
            if h not in self.alive:
                return True
            n0 = len(self.accepted_a)
            connb = w.conns[1][h]
            if kind == 7:
                t, ok = self.await_(w.mgr[1].create_le_credit_based_channel(connb, self.spec))
            else:
                t, ok = self.await_(w.mgr[1].create_classic_channel(connb, l2cap.ClassicChannelSpec(psm=PSM_CLASSIC)))
            if not ok or not t.done() or t.exception() is not None or len(self.accepted_a) != n0 + 1:
                return False
            self.open.append(('classic' if kind == 8 else 'le', h, self.accepted_a[-1], t.result()))
            return True
        if kind == 9:               # an open that the caller cancels while the request is in flight
            if h not in self.alive:
                return True
            t = self.loop.create_task(w.mgr[0].create_classic_channel(conn, l2cap.ClassicChannelSpec(psm=PSM_CLASSIC)))
            self.loop.run_ready()
            t.cancel()
            if not w.pump(self.loop) or not t.done():
                return False
            self.half_open_on_b = True
            return True
        # link loss
        if h in self.alive:
            waiters = []
            w.link_down(self.loop, h)
            self.alive.discard(h)
            self.open = [c for c in self.open if c[1] != h]
        return True

    def tables_exact(self):
        w = self.w
        for side in (0, 1):
            m = w.mgr[side]
            for h in (1, 2):
                mine = [c for c in self.open if c[1] == h]
                chans = [c[2 + side] for c in mine]
                want_cids = sorted(ch.source_cid for ch in chans)
                have = sorted(cid for cid, ch in m.channels.get(h, {}).items()
                              if not (side == 1 and self.half_open_on_b and isinstance(ch, l2cap.ClassicChannel) and ch.state != ch.State.OPEN))
                if have != want_cids or len(set(want_cids)) != len(want_cids):
                    return False
                want_le = sorted(ch.destination_cid for (k, _, *_), ch in zip(mine, chans) if k == 'le')
                if sorted(m.le_coc_channels.get(h, {})) != want_le:
                    return False
                for cid, ch in m.channels.get(h, {}).items():
                    if ch.source_cid != cid:
                        return False
                for cid, ch in m.le_coc_channels.get(h, {}).items():
                    if ch.destination_cid != cid:
                        return False
        return True


def _canary_stale_le_table():
    def on_channel_closed(self, channel):
        if chans := self.channels.get(channel.connection.handle):
            chans.pop(channel.source_cid, None)
    l2cap.ChannelManager.on_channel_closed = on_channel_closed


@harness(pre=['1 <= h2 <= 2 and 0 <= k3 <= 9 and 1 <= h3 <= 2 and 0 <= x3 <= 1 and 0 <= k4 <= 10 and 1 <= h4 <= 2 and 0 <= x4 <= 1',
              ],
         family='tables', twin=True, kernels=K, timeout=(90, 400), canaries=[('le-table-not-cleaned', _canary_stale_le_table)],
         grids=[(('quick',), {'k1': [0, 1, 2], 'h1': [1], 'k2': [0, 1, 2, 3, 4, 5, 6, 7, 8, 9], 'k4': [10]}), (('quick',), {'k1': [7, 8, 9], 'h1': [1], 'k2': [0, 2, 7, 8], 'k4': [10]}), (('thorough',), {'k1': [0, 1, 2, 3, 4, 5, 6, 7, 8, 9], 'h1': [1, 2], 'k2': [0, 1, 2, 3, 4, 5, 6, 7, 8, 9]})],
         bounds='program of 3 (quick) / 4 (thorough) operations from {open LE CoC, open enhanced CoC, open classic, close by A, close by B, refused open, link loss, LE CoC opened by B, classic opened by B, classic open cancelled by the caller in flight} on 2 connections (first two operations per condition): after every operation both sides\' tables hold exactly the open channels, keyed consistently, CIDs unique per connection, every awaited open/close completed; finally a fresh open succeeds on every live link')
def program(k2: int, h2: int, k3: int, h3: int, x3: int, k4: int, h4: int, x4: int, k1: int, h1: int) -> bool:
    h2, k3, h3, x3 = C(h2, 1, 2), C(k3, 0, 9), C(h3, 1, 2), C(x3, 0, 1)
    k4, h4, x4 = C(k4, 0, 10), C(h4, 1, 2), C(x4, 0, 1)
    with untraced():
        return _program_concrete(k1, h1, k2, h2, k3, h3, x3, k4, h4, x4)


def _program_concrete(k1, h1, k2, h2, k3, h3, x3, k4, h4, x4):
    with detloop.running() as loop:
        wd = World(loop, 64, 32, 3)
        for kind, h, which in ((k1, h1, 0), (k2, h2, 0), (k3, h3, x3), (k4, h4, x4)):
            if not wd.op(kind, h, which):
                return False
            if not wd.tables_exact():
                return False
        for h in sorted(wd.alive):
            if not wd.op(0, h, 0) or not wd.tables_exact():
                return False
        return True


@harness(pre=['0 <= first <= 1 and 0 <= who <= 1'], family='independence', kernels=K, timeout=(60, 200), grid={'kind': [0, 1]},
         bounds='two opens issued concurrently on two different links (LE CoC or enhanced), responses delivered in either order: both complete, and a link loss on one link while the other open is in flight does not disturb it')
def concurrent_opens_on_two_links(first: int, who: int, kind: int) -> bool:
    first, who = C(first, 0, 1), C(who, 0, 1)
    with untraced():
        return _concurrent_concrete(first, who, kind)


def _concurrent_concrete(first, who, kind):
    with detloop.running() as loop:
        wd = World(loop, 23, 23, 2)
        w = wd.w
        mk = (lambda c: w.mgr[0].create_le_credit_based_channel(c, wd.spec)) if kind == 0 else (lambda c: w.mgr[0].create_enhanced_credit_based_channels(c, wd.spec, 1))
        t1 = loop.create_task(mk(w.conns[0][1]))
        t2 = loop.create_task(mk(w.conns[0][2]))
        loop.run_ready()
        # requests of both links are on the wire; deliver link `first` first
        w.q.sort(key=lambda m: 0 if m[1] == 1 + first else 1)
        if who == 1:
            # the other link dies while this open is in flight
            w.pump(loop, limit=1)
            w.link_down(loop, 2 - first)
        w.pump(loop)
        ta, tb = (t1, t2) if first == 0 else (t2, t1)
        if not ta.done() or ta.exception() is not None:
            return False
        if who == 0:
            return tb.done() and tb.exception() is None
        return tb.done()      # failed or cancelled, but not hanging


@harness(pre=['0 <= closer <= 1 and 0 <= kind <= 2'], family='waiters', kernels=K, timeout=(60, 200),
         bounds='a disconnect() or drain() awaiting on a channel whose link goes away - with output still queued, or with everything sent but not yet acknowledged by credits (the data fits the credits exactly): the waiter ends (result, error or cancellation)')
def waiters_end_on_link_loss(closer: int, kind: int) -> bool:
    closer, kind = C(closer, 0, 1), C(kind, 0, 2)
    with untraced():
        return _waiters_concrete(closer, kind)


def _waiters_concrete(closer, kind):
    with detloop.running() as loop:
        wd = World(loop, 23, 23, 1)
        if not wd.op(0, 1, 0):
            return False
        _, _, a, b = wd.open[0]
        ch = a if closer == 0 else b
        if kind == 0:
            t = loop.create_task(ch.disconnect())
            loop.run_ready()
        elif kind == 1:
            ch.write(bytes(200))       # more than one credit: output stays queued
            t = loop.create_task(ch.drain())
            loop.run_ready()
        else:
            # exactly as many K-frames as credits: nothing stays queued, yet drain() waits for the credits to come back
            ch.write(bytes(ch.peer_mps * ch.credits - 2))
            if ch.out_queue or ch.out_sdu is not None:
                return False
            t = loop.create_task(ch.drain())
            loop.run_ready()
            wd.w.q.clear()             # the frames (and any credits) are lost with the link
        wd.w.link_down(loop, 1)
        loop.run_ready()
        return t.done()


@harness(pre=['0 <= n <= 300 and 1 <= k <= 3'], family='identifiers', twin=True, kernels=('bumble.l2cap.ChannelManager.next_identifier',), timeout=(60, 200),
         bounds='ChannelManager.next_identifier from any stored value 0..300 (symbolic; 255 and beyond included), 1..3 consecutive calls: every identifier is 1..255 (never 0, never 256 - it has to fit one octet) and consecutive ones differ')
def signalling_identifiers_fit_one_octet(n: int, k: int) -> bool:
    from vf.props.l2capstub import HConn
    m = l2cap.ChannelManager()
    c = HConn(1)
    m.identifiers[1] = n % 256 if n > 255 else n
    prev = None
    for _ in range(k):
        i = m.next_identifier(c)
        if not (1 <= i <= 255) or i == prev:
            return False
        prev = i
    return True


_flags.int_format_placeholder = True     # log f-strings with symbolic ints are not the subject here (see vf/flags.py)
