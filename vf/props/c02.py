"""C02 — HCI byte streams are re-framed into the same packets under any chunking.

Real PacketParser / PacketReader / AsyncPacketReader / usb PacketSplitter and the protocol classes of the
TCP, UNIX and WebSocket server transports (their opener coroutines run under the deterministic loop with
create_server / serve captured; no socket is opened).
"""
import io

from vf.e1 import Stalled, cpu_deadline, harness, untraced
from vf import flags as _flags
from vf import detloop

from bumble import core, hci
from bumble.transport import common as tc

ASSUMPTIONS = [
    'after an unrecognised type byte the rest of that chunk may be dropped; only data fed afterwards must frame correctly (DESIGN 3.0)',
    'merge invariance is claimed for streams without invalid type bytes',
    'stream reader stub honours the asyncio.StreamReader contract: readexactly(n) returns exactly n bytes, read(n) at most n from the data that has arrived',
    'libusb, sockets and websockets themselves are outside (stubs capture the protocol factories)',
]
K = ('bumble.transport.common.PacketParser.feed_data', 'bumble.transport.common.PacketParser.reset')
# (type, header bytes after the type, index of the length field within the header, length size)
LAYOUT = {1: (3, 2, 1), 2: (4, 2, 2), 3: (3, 2, 1), 4: (2, 1, 1), 5: (4, 2, 2)}


def _B(*xs):
    return bytes(list(xs))


class Sink:
    def __init__(self):
        self.packets = []

    def on_packet(self, p):
        self.packets.append(bytes(p))


def mk_packet(t, n, h0, h1, body):
    """well-formed packet of type t with n body bytes; h0,h1 = the non-length header bytes"""
    hl, lo, ls = LAYOUT[t]
    head = [h0, h1][:lo]
    ln = [n % 256] if ls == 1 else [n % 256, n // 256]
    return _B(t, *head, *ln) + bytes(body[:n])


def _state(p):
    return (p.state, p.bytes_needed, bytes(p.packet))


def _canary_len_off_by_one():
    orig = tc.PacketParser.feed_data

    def feed_data(self, data):
        data_offset, data_left = 0, len(data)
        while data_left and self.bytes_needed:
            consumed = min(self.bytes_needed, data_left)
            self.packet.extend(data[data_offset:data_offset + consumed])
            data_offset += consumed
            data_left -= consumed
            self.bytes_needed -= consumed
            if self.bytes_needed == 0:
                if self.state == tc.PacketParser.NEED_TYPE:
                    self.packet_info = tc.HCI_PACKET_INFO.get(self.packet[0])
                    if self.packet_info is None:
                        self.reset()
                        raise core.InvalidPacketError('invalid')
                    self.state = tc.PacketParser.NEED_LENGTH
                    self.bytes_needed = self.packet_info[0] + self.packet_info[1]
                elif self.state == tc.PacketParser.NEED_LENGTH:
                    import struct
                    body_length = struct.unpack_from(self.packet_info[2], self.packet, 1 + self.packet_info[1])[0]
                    self.bytes_needed = body_length
                    self.state = tc.PacketParser.NEED_BODY
                if self.state == tc.PacketParser.NEED_BODY and self.bytes_needed <= 0 and data_left == 0:   # emits late
                    if self.sink:
                        self.sink.on_packet(bytes(self.packet))
                    self.reset()
    tc.PacketParser.feed_data = feed_data


# ------------------------------------------------------------------------------------------
@harness(pre=['0 <= x0 <= 6 and 0 <= x1 <= 6 and 0 <= x2 <= 6 and 0 <= x3 <= 6 and 0 <= x4 <= 6 and 0 <= x5 <= 6 and 0 <= x6 <= 6'],
         family='merge', kernels=K, timeout=(40, 150), twin=True,
         grids=[(('quick',), {'la': [1, 2, 3, 4], 'lb': [1, 2, 3]}), (('thorough',), {'la': [1, 2, 3, 4, 5, 6], 'lb': [1, 2, 3, 4, 5]})],
         bounds='merge invariance: two symbolic chunks a (1..6 bytes) and b (1..5 bytes) over the control-relevant alphabet 0..6 (every packet type, invalid types 0 and 6, body lengths 0..6), total <= 7 (quick) / 11 (thorough): feed(a);feed(b) == feed(a+b) in emitted packets and parser state')
def merge_invariance(x0: int, x1: int, x2: int, x3: int, x4: int, x5: int, x6: int, la: int, lb: int) -> bool:
    data = (_B(x0, x1, x2, x3, x4, x5, x6) + bytes(range(1, 5)))[:la + lb]
    s1, s2 = Sink(), Sink()
    p1, p2 = tc.PacketParser(s1), tc.PacketParser(s2)
    try:
        p1.feed_data(data[:la])
        p1.feed_data(data[la:])
        p2.feed_data(data)
    except core.InvalidPacketError:
        return True
    return s1.packets == s2.packets and _state(p1) == _state(p2)


@harness(pre=['0 <= h0 <= 255 and 0 <= h1 <= 255 and 0 <= d0 <= 255 and 0 <= d1 <= 255 and 0 <= g0 <= 255 and 0 <= g1 <= 255 and 0 <= e0 <= 255'],
         family='reference', kernels=K, timeout=(30, 120), canaries=[('emit-only-at-chunk-end', _canary_len_off_by_one)],
         grid={'t1': [1, 2, 3, 4, 5], 'n1': [0, 1, 2], 't2': [4, 2]},
         bounds='two well-formed packets (every type x body length 0..2, followed by an event or ACL packet) in ONE chunk and in 1-byte chunks: exactly those packets, in order, parser back in its initial state')
def single_feed_is_reference(h0: int, h1: int, d0: int, d1: int, g0: int, g1: int, e0: int, t1: int, n1: int, t2: int) -> bool:
    a = mk_packet(t1, n1, h0, h1, [d0, d1])
    b = mk_packet(t2, 1, g0, g1, [e0])
    s = Sink()
    p = tc.PacketParser(s)
    p.feed_data(a + b)
    if s.packets != [a, b] or _state(p) != (tc.PacketParser.NEED_TYPE, 1, b''):
        return False
    s2 = Sink()
    p2 = tc.PacketParser(s2)
    stream = a + b
    for i in range(len(stream)):
        before = len(s2.packets)
        p2.feed_data(stream[i:i + 1])
        # none early: a packet appears exactly when its last byte arrives
        if len(s2.packets) - before != (1 if i + 1 in (len(a), len(stream)) else 0):
            return False
    return s2.packets == [a, b]


class _Blocking:
    """io.BufferedReader stand-in (pure Python, so symbolic bytes are not realised by C code)"""

    def __init__(self, data):
        self.data = data

    def read(self, n):
        r, self.data = self.data[:n], self.data[n:]
        return r


class _Reader:
    """asyncio.StreamReader stand-in fed with chunks"""

    def __init__(self, chunks):
        self.buf = b''
        self.chunks = list(chunks)

    def _more(self):
        if self.chunks:
            self.buf += self.chunks.pop(0)
            return True
        return False

    async def readexactly(self, n):
        while len(self.buf) < n:
            if not self._more():
                raise EOFError()
        r, self.buf = self.buf[:n], self.buf[n:]
        return r

    async def read(self, n=-1):
        if not self.buf:
            self._more()
        k = len(self.buf) if n < 0 else min(n, len(self.buf))
        r, self.buf = self.buf[:k], self.buf[k:]
        return r


def _run(coro):
    try:
        coro.send(None)
    except StopIteration as e:
        return e.value
    raise RuntimeError('reader suspended')


@harness(pre=['0 <= h0 <= 255 and 0 <= h1 <= 255 and 0 <= d0 <= 255 and 0 <= d1 <= 255 and 0 <= d2 <= 255 and 0 <= g0 <= 255 and 0 <= e0 <= 255'],
         family='framers', kernels=K + ('bumble.transport.common.PacketReader.next_packet', 'bumble.transport.common.AsyncPacketReader.next_packet', 'bumble.transport.usb.PacketSplitter.feed'),
         timeout=(40, 150), grid={'t1': [1, 2, 3, 4, 5], 'n1': [0, 1, 3], 'cut': [1, 2, 3, 4, 5, 6]},
         bounds='all framers on the same 2-packet stream (every type x body 0/1/3, then an event) cut at every position 1..6: push parser, blocking reader, async reader (chunked stream), USB splitter of that type')
def framers_agree(h0: int, h1: int, d0: int, d1: int, d2: int, g0: int, e0: int, t1: int, n1: int, cut: int) -> bool:
    from bumble.transport import usb
    if cut >= 4 + n1:
        return True
    a = mk_packet(t1, n1, h0, h1, [d0, d1, d2])
    b = mk_packet(4, 1, g0, 0, [e0])
    stream = a + b
    want = [a, b]
    # blocking reader
    r = tc.PacketReader(_Blocking(stream))
    if [r.next_packet(), r.next_packet()] != want or r.next_packet() is not None:
        return False
    # async reader over a chunked stream
    ar = tc.AsyncPacketReader(_Reader([stream[:cut], stream[cut:]]))
    if [_run(ar.next_packet()), _run(ar.next_packet())] != want:
        return False
    # push parser with the same chunking
    s = Sink()
    p = tc.PacketParser(s)
    p.feed_data(stream[:cut])
    p.feed_data(stream[cut:])
    if s.packets != want:
        return False
    # USB splitter for this endpoint type (type byte not on the wire), two packets of the same type
    if t1 in (2, 3, 4):
        cls = {2: usb.AclPacketSplitter, 3: usb.ScoPacketSplitter, 4: usb.EventPacketSplitter}[t1]
        out = []
        sp = cls(out.append)
        a2 = mk_packet(t1, 1, g0, h1, [e0])
        wire = a[1:] + a2[1:]
        c = min(cut, len(wire) - 1)
        try:
            with cpu_deadline(20):       # a splitter that never returns is a counterexample, not a time-out
                sp.feed(wire[:c])
                sp.feed(wire[c:])
        except Stalled:
            return False
        if [bytes(x) for x in out] != [a[1:], a2[1:]]:
            return False
    return True


@harness(pre=['0 <= h0 <= 255 and 0 <= h1 <= 255 and 0 <= e0 <= 255 and 0 <= e1 <= 255'], family='framers', timeout=(60, 200),
         kernels=K + ('bumble.transport.usb.PacketSplitter.feed',), grid={'n': [255, 256, 0xFFFB, 0xFFFC, 0xFFFF], 'where': ['header', 'mid', 'one']},
         bounds='ACL packets with 16-bit lengths 255, 256, 0xFFFB, 0xFFFC, 0xFFFF (symbolic header and edge bytes): push parser and USB ACL splitter, chunk ending exactly after the header / in the body / single chunk')
def long_acl_packets(h0: int, h1: int, e0: int, e1: int, n: int, where: str) -> bool:
    from bumble.transport import usb
    body = _B(e0) + bytes(n - 2) + _B(e1)
    a = _B(2, h0, h1, n % 256, n // 256) + body
    nxt = _B(4, 0x0E, 1, e0)
    cut = {'header': 5, 'mid': 5 + n // 2, 'one': len(a)}[where]
    s = Sink()
    p = tc.PacketParser(s)
    p.feed_data(a[:cut])
    p.feed_data(a[cut:] + nxt)
    if s.packets != [a, nxt]:
        return False
    out = []
    sp = usb.AclPacketSplitter(out.append)
    wire = a[1:] + _B(h0, h1, 1, 0, e1)
    c = cut - 1
    try:
        with cpu_deadline(20):
            sp.feed(wire[:c])
            sp.feed(wire[c:])
    except Stalled:
        return False
    return [bytes(x) for x in out] == [a[1:], _B(h0, h1, 1, 0, e1)]


@harness(pre=['t == 0 or 6 <= t <= TMAX', '0 <= g0 <= 255 and 0 <= g1 <= 255 and 0 <= h0 <= 255 and 0 <= e0 <= 255'], family='recovery', kernels=K,
         timeout=(40, 300),
         grids=[(('quick',), {'pre': [0, 1], 'garbage': [0, 2], 'good': [4, 2], 'TMAX': [24]}), (('thorough',), {'pre': [0, 1], 'garbage': [0, 1, 2], 'good': [4, 1, 2], 'TMAX': [255]})],
         bounds='an invalid type byte (0 or 6..24 quick, any value outside 1..5 thorough) at a packet boundary, alone or followed by 1..2 bytes in the same chunk, optionally after a complete packet: InvalidPacketError is raised, and a well-formed packet fed afterwards is emitted intact')
def error_recovery(t: int, g0: int, g1: int, h0: int, e0: int, pre: int, garbage: int, good: int, TMAX: int) -> bool:
    s = Sink()
    p = tc.PacketParser(s)
    first = mk_packet(4, 1, h0, 0, [e0])
    if pre:
        p.feed_data(first)
    raised = False
    try:
        p.feed_data(_B(t) + _B(g0, g1)[:garbage])
    except core.InvalidPacketError:
        raised = True
    if not raised:
        return False
    ok = mk_packet(good, 1, h0, g0, [e0])
    p.feed_data(ok)
    return s.packets == ([first] if pre else []) + [ok]


# ------------------------------------------------------------------------------------------
# server transports: a new client's stream is framed from its first byte
class _FakeTransport:
    def get_extra_info(self, k):
        return 'peer'

    def write(self, b):
        pass


def _open_stream_server(loop, kind):
    captured = {}

    async def create_server(factory, *a, **kw):
        captured['factory'] = factory
        return object()
    loop.create_server = create_server
    loop.create_unix_server = create_server
    if kind == 'tcp':
        from bumble.transport import tcp_server
        t = loop.create_task(tcp_server._open_tcp_server_transport_impl(host=None, port=1))
    else:
        from bumble.transport import unix
        t = loop.create_task(unix.open_unix_server_transport('/nowhere'))
    loop.run_ready()
    return t.result(), captured['factory']


@harness(pre=['1 <= cut <= 5 and 0 <= b0 <= 255 and 0 <= b1 <= 255 and 0 <= e0 <= 255 and 0 <= e1 <= 255'], family='server', grid={'kind': ['tcp', 'unix', 'ws'], 't1': [4, 2]},
         kernels=K + ('bumble.transport.tcp_server._open_tcp_server_transport_impl', 'bumble.transport.unix.open_unix_server_transport',
                      'bumble.transport.ws_server.open_ws_server_transport', 'bumble.transport.common.StreamPacketSource.data_received'),
         bounds='TCP / UNIX / WebSocket server transport: client 1 is cut off after 1..5 bytes of a 7-byte event or 8-byte ACL packet (symbolic position and bytes), client 2 connects and sends a well-formed packet: emitted intact and first')
def new_client_framed_from_first_byte(cut: int, b0: int, b1: int, e0: int, e1: int, kind: str, t1: int) -> bool:
    with detloop.running() as loop:
        first = _B(4, 0x0E, 4, b0, b1, 3, 4) if t1 == 4 else _B(2, b0, b1, 3, 0, 1, 2, 3)
        good = _B(4, e0, 1, e1)
        sink = Sink()
        if kind == 'ws':
            from bumble.transport import ws_server
            import websockets.asyncio.server as wss

            captured = {}

            async def serve(handler, host=None, port=None, **kw):
                captured['handler'] = handler
                return object()
            saved = wss.serve
            wss.serve = serve
            try:
                t = loop.create_task(ws_server.open_ws_server_transport('_:1'))
                loop.run_ready()
                transport = t.result()
            finally:
                wss.serve = saved
            transport.source.set_packet_sink(sink)

            class Conn:
                local_address = remote_address = 'x'

                def __init__(self, frames):
                    self.frames = frames

                def __aiter__(self):
                    return self

                async def __anext__(self):
                    if self.frames:
                        return self.frames.pop(0)
                    raise StopAsyncIteration
            c1 = loop.create_task(captured['handler'](Conn([first[:cut]])))
            loop.run_ready()
            c2 = loop.create_task(captured['handler'](Conn([good])))
            loop.run_ready()
            transport.sink.stop() if hasattr(transport.sink, 'stop') else None
            return sink.packets == [good]
        transport, factory = _open_stream_server(loop, kind)
        transport.source.set_packet_sink(sink)
        c1 = factory()
        c1.connection_made(_FakeTransport())
        c1.data_received(first[:cut])
        c1.connection_lost(None)
        c2 = factory()
        c2.connection_made(_FakeTransport())
        c2.data_received(good)
        return sink.packets == [good]


def _server_client(loop, kind, sink):
    """open the server transport of `kind`; returns feed(chunks): one client that sends the chunks in order"""
    if kind == 'ws':
        from bumble.transport import ws_server
        import websockets.asyncio.server as wss
        captured = {}

        async def serve(handler, host=None, port=None, **kw):
            captured['handler'] = handler
            return object()
        saved = wss.serve
        wss.serve = serve
        try:
            t = loop.create_task(ws_server.open_ws_server_transport('_:1'))
            loop.run_ready()
            transport = t.result()
        finally:
            wss.serve = saved
        transport.source.set_packet_sink(sink)

        class Conn:
            local_address = remote_address = 'x'

            def __init__(self, frames):
                self.frames = list(frames)

            def __aiter__(self):
                return self

            async def __anext__(self):
                if self.frames:
                    return self.frames.pop(0)
                raise StopAsyncIteration

        def feed(chunks):
            loop.create_task(captured['handler'](Conn(chunks)))
            loop.run_ready()
        return feed
    transport, factory = _open_stream_server(loop, kind)
    transport.source.set_packet_sink(sink)

    def feed(chunks):
        c = factory()
        c.connection_made(_FakeTransport())
        for ch in chunks:
            c.data_received(ch)
    return feed


@harness(pre=['1 <= cut <= 7 and 0 <= b0 <= 255 and 0 <= b1 <= 255 and 0 <= e0 <= 255 and 0 <= e1 <= 255'], family='server', grid={'kind': ['tcp', 'unix', 'ws'], 't1': [4, 2]},
         kernels=K + ('bumble.transport.tcp_server._open_tcp_server_transport_impl', 'bumble.transport.unix.open_unix_server_transport',
                      'bumble.transport.ws_server.open_ws_server_transport', 'bumble.transport.common.StreamPacketSource.data_received'),
         bounds='TCP / UNIX / WebSocket server transport, one client: a 7-byte event or 8-byte ACL packet split after 1..7 bytes (symbolic position and bytes) across two messages, the second message also carrying the start of the next packet, whose rest comes in a third: both packets are emitted intact and in order')
def server_stream_chunking(cut: int, b0: int, b1: int, e0: int, e1: int, kind: str, t1: int) -> bool:
    with detloop.running() as loop:
        first = _B(4, 0x0E, 4, b0, b1, 3, 4) if t1 == 4 else _B(2, b0, b1, 3, 0, 1, 2, 3)
        if cut >= len(first):
            return True
        good = _B(4, e0, 1, e1)
        sink = Sink()
        feed = _server_client(loop, kind, sink)
        feed([first[:cut], first[cut:] + good[:2], good[2:]])
        return sink.packets == [first, good]


_flags.int_format_placeholder = True     # log f-strings with symbolic ints are not the subject here (see vf/flags.py)


def e2_obligations(tier):
    """wide-range verification conditions over the AST of the real source (vf/e2.py, vf/e2k.py)"""
    from vf import e2k
    return [e2k.packet_parser_iteration()]
