"""C15 — the JSON key store is exact, persistent, namespace-isolated and crash-atomic.

Real JsonKeyStore (load/save/update/delete/delete_all/get/get_all) and PairingKeys(.Key).to_dict/from_dict
on an in-memory file-system model that replaces open/os.replace/Path.exists/mkdir in bumble.keys: every
file-system step is numbered and a crash can be injected before any step (symbolic index).
"""
import io
import json

from vf.e1 import harness, untraced, concrete as C

from bumble import keys as bk
from bumble import hci

ASSUMPTIONS = [
    'process-crash model: every write() reaches the file immediately (no buffering), os.replace is atomic; fsync/power-loss ordering is outside',
    'update may merge with fields stored earlier (the code does): asserted: every field present in the update reads back, other peers and namespaces are untouched (DESIGN 3.0)',
    'default namespace rule as documented in the class: adopt the only existing namespace, else "__DEFAULT__"',
    'key values are concrete 16-byte patterns (hex()/json are C-level: CrossHair cannot carry symbolic bytes through them); presence of fields, EDIV/Rand/flag/type values, the operation program and the crash index are symbolic integers that are realised by solver forks, so each explored path runs the real code on one concrete configuration and the finite space is covered exhaustively',
]
K = ('bumble.keys.JsonKeyStore.load', 'bumble.keys.JsonKeyStore.save', 'bumble.keys.JsonKeyStore.update', 'bumble.keys.JsonKeyStore.delete',
     'bumble.keys.JsonKeyStore.delete_all', 'bumble.keys.JsonKeyStore.get', 'bumble.keys.JsonKeyStore.get_all',
     'bumble.keys.PairingKeys.to_dict', 'bumble.keys.PairingKeys.from_dict', 'bumble.keys.PairingKeys.Key.to_dict', 'bumble.keys.PairingKeys.Key.from_dict')
PATH = '/x/keys.json'


class Crash(Exception):
    pass


class FS:
    def __init__(self):
        self.files = {}
        self.dirs = set()
        self.step = 0
        self.crash_at = -1
        self.writers = []

    def tick(self):
        if self.step == self.crash_at:
            raise Crash()
        self.step += 1


class _WFile:
    """a text file opened for writing: write() fills the process's buffer; the data reaches the file when the
    buffer is flushed at close (json.dump output of these stores is far below the 8 KiB buffer).  A rename of
    the open file moves it (POSIX): data flushed later lands under the new name."""

    def __init__(self, fs, name):
        self.fs, self.name, self.buf = fs, name, ''
        fs.tick()
        fs.files[name] = ''
        fs.writers.append(self)

    def write(self, s):
        self.fs.tick()
        self.buf += s
        return len(s)

    def flush(self):
        self.fs.tick()
        self.fs.files[self.name] += self.buf
        self.buf = ''

    def close(self):
        self.flush()
        if self in self.fs.writers:
            self.fs.writers.remove(self)

    def __enter__(self):
        return self

    def __exit__(self, *a):
        if a[0] is None:
            self.close()
        return False


class _Dir:
    def __init__(self, fs, name):
        self.fs, self.name = fs, name

    def exists(self):
        return self.name in self.fs.dirs

    def mkdir(self, parents=False, exist_ok=False):
        self.fs.tick()
        self.fs.dirs.add(self.name)


class _OS:
    def __init__(self, fs):
        self.fs = fs

    def replace(self, src, dst):
        self.fs.tick()
        self.fs.files[str(dst)] = self.fs.files.pop(str(src))
        for w in self.fs.writers:
            if w.name == str(src):
                w.name = str(dst)


def install(fs):
    def _open(name, mode='r', encoding=None):
        name = str(name)
        if 'w' in mode:
            return _WFile(fs, name)
        if name not in fs.files:
            raise FileNotFoundError(name)
        return io.StringIO(fs.files[name])
    bk.open = _open
    bk.os = _OS(fs)


def store(fs, namespace):
    s = bk.JsonKeyStore(namespace, PATH)
    s.directory_name = _Dir(fs, '/x')
    return s


def run(coro):
    try:
        coro.send(None)
    except StopIteration as e:
        return e.value
    raise RuntimeError('suspended')


V16 = [bytes(range(16)), bytes(range(16, 32)), bytes([0xFF] * 16), bytes(16)]
EDIVS = [None, 0, 1, 0xFFFF]
RANDS = [None, bytes(8), bytes(range(8))]


def key(i, auth=False, ediv=None, rand=None):
    return bk.PairingKeys.Key(value=V16[i % 4], authenticated=auth, ediv=ediv, rand=rand)


def variant(v):
    """a few differently shaped PairingKeys"""
    if v == 0:
        return bk.PairingKeys(ltk=key(0))
    if v == 1:
        return bk.PairingKeys(address_type=hci.AddressType.RANDOM_DEVICE, ltk_central=key(1, True, 0, bytes(8)), ltk_peripheral=key(2, False, 0xFFFF, bytes(range(8))), irk=key(3))
    if v == 2:
        return bk.PairingKeys(link_key=key(2, True), link_key_type=5)
    return bk.PairingKeys(address_type=hci.AddressType.PUBLIC_DEVICE, csrk=key(1), irk=key(0, True))


def canon(db):
    return json.loads(json.dumps(db))


# ------------------------------------------------------------------------------------------
def _canary_ediv_truthiness():
    def to_dict(self):
        d = {'value': self.value.hex(), 'authenticated': self.authenticated}
        if self.ediv:
            d['ediv'] = self.ediv
        if self.rand:
            d['rand'] = self.rand.hex()
        return d
    bk.PairingKeys.Key.to_dict = to_dict


@harness(pre=['0 <= present <= 7 and 0 <= at <= 4 and 0 <= e <= 3 and 0 <= r <= 2 and 0 <= lkt <= 2'], family='roundtrip', twin=True, kernels=K, timeout=(60, 200),
         canaries=[('ediv-zero-dropped', _canary_ediv_truthiness)], grid={'which': [0, 1, 2, 3, 4, 5]},
         bounds='PairingKeys round-trip through to_dict / JSON text / from_dict: presence of the other keys (3 symbolic bits, keys i and i+3 share a bit), address type in {None,0..3}, link key type in {None,0,5}; the key `which` carries symbolic authenticated flag, EDIV in {None,0,1,0xFFFF} and Rand in {None, zeros, pattern}')
def pairing_keys_roundtrip(present: int, at: int, auth: bool, e: int, r: int, lkt: int, which: int) -> bool:
    auth = True if auth else False
    present, at, e, r, lkt = C(present, 0, 7), C(at, 0, 4), C(e, 0, 3), C(r, 0, 2), C(lkt, 0, 2)     # realised: one concrete configuration per path
    with untraced():
        return _roundtrip_concrete(present, at, auth, e, r, lkt, which)


def _roundtrip_concrete(present, at, auth, e, r, lkt, which):
    names = ['ltk', 'ltk_central', 'ltk_peripheral', 'irk', 'csrk', 'link_key']
    kw = {}
    for i, n in enumerate(names):
        if (present >> (i % 3)) & 1 or i == which:
            kw[n] = key(i, auth, EDIVS[int(e)], RANDS[int(r)]) if i == which else key(i)
    pk = bk.PairingKeys(address_type=[None, 0, 1, 2, 3][int(at)] if at == 0 else hci.AddressType([None, 0, 1, 2, 3][int(at)]),
                        link_key_type=[None, 0, 5][int(lkt)], **kw)
    text = json.dumps(pk.to_dict(), sort_keys=True, indent=4)
    back = bk.PairingKeys.from_dict(json.loads(text))
    return back == pk


# ------------------------------------------------------------------------------------------
NS = ['AA:AA', 'BB:BB', None]


def _effective_ns(model, which):
    """namespace a store created with NS[which] works on, per the documented default rule"""
    ns = NS[which]
    if ns is not None:
        return ns
    if bk.JsonKeyStore.DEFAULT_NAMESPACE in model:
        return bk.JsonKeyStore.DEFAULT_NAMESPACE
    if len(model) == 1:
        return next(iter(model))
    return bk.JsonKeyStore.DEFAULT_NAMESPACE


def _apply(fs, model, kind, which, peer, v, stores=None):
    """apply one operation through a FRESH store instance (re-opening the file) - or through the given live instance - and to the reference model"""
    s = stores[which] if stores else store(fs, NS[which])
    ns = _effective_ns(model, which)
    name = ['peer0', 'peer1'][peer]
    if kind == 0:
        run(s.update(name, variant(v)))
        model.setdefault(ns, {}).setdefault(name, {}).update(canon(variant(v).to_dict()))
    elif kind == 1:
        try:
            run(s.delete(name))
        except KeyError:
            return                  # nothing is saved: the file (and the set of namespaces in it) is unchanged
        model[ns].pop(name)
    else:
        run(s.delete_all())
        model.setdefault(ns, {}).clear()


def _check(fs, model):
    """what fresh stores return equals the model, per namespace; the file is a JSON object of namespaces"""
    if PATH in fs.files:
        db = json.loads(fs.files[PATH])
        if not isinstance(db, dict) or not all(isinstance(v, dict) for v in db.values()):
            return False
    for which in (0, 1, 2):
        ns = _effective_ns(model, which)
        want = {n: bk.PairingKeys.from_dict(d) for n, d in model.get(ns, {}).items()}
        s = store(fs, NS[which])
        got = dict(run(s.get_all()))
        if got != want:
            return False
        for n in ('peer0', 'peer1'):
            if run(store(fs, NS[which]).get(n)) != want.get(n):
                return False
    return True


@harness(pre=['0 <= p1 <= 1 and 0 <= v1 <= 3 and 0 <= k2 <= 2 and 0 <= w2 <= 2 and 0 <= p2 <= 1 and 0 <= v2 <= 3'], family='semantics', twin=True, kernels=K, timeout=(60, 240),
         grids=[(('quick',), {'k1': [0, 1, 2], 'w1': [0, 1, 2], 'init': [0, 1]}), (('thorough',), {'k1': [0, 1, 2], 'w1': [0, 1, 2], 'init': [0, 1, 2]})],
         bounds='from an initial file (absent / one namespace / two namespaces) a program of two operations {update, delete, delete_all} x store {AA, BB, default namespace} x 2 peers x 4 key shapes (first operation kind/store per condition, everything else symbolic), each through a re-opened store: afterwards every store returns exactly the reference model and other namespaces are untouched')
def two_operations(p1: int, v1: int, k2: int, w2: int, p2: int, v2: int, k1: int, w1: int, init: int) -> bool:
    p1, v1, k2, w2, p2, v2 = C(p1, 0, 1), C(v1, 0, 3), C(k2, 0, 2), C(w2, 0, 2), C(p2, 0, 1), C(v2, 0, 3)     # realised: one concrete program per path
    with untraced():
        return _two_operations_concrete(p1, v1, k2, w2, p2, v2, k1, w1, init)


def _two_operations_concrete(p1, v1, k2, w2, p2, v2, k1, w1, init):
    fs = FS()
    install(fs)
    model = {}
    if init >= 1:
        model['AA:AA'] = {'peer0': canon(variant(1).to_dict())}
    if init == 2:
        model['BB:BB'] = {'peer1': canon(variant(2).to_dict())}
    if init:
        fs.files[PATH] = json.dumps(model, sort_keys=True, indent=4)
        fs.dirs.add('/x')
    _apply(fs, model, k1, w1, p1, v1)
    if not _check(fs, model):
        return False
    _apply(fs, model, k2, w2, p2, v2)
    return _check(fs, model)


def _canary_cached_db():
    orig = bk.JsonKeyStore.load

    async def load(self):
        if not hasattr(self, '_vf_cache'):
            self._vf_cache = await orig(self)
        return self._vf_cache
    bk.JsonKeyStore.load = load


@harness(pre=['0 <= w1 <= 2 and 0 <= k2 <= 2 and 0 <= w2 <= 2 and 0 <= k3 <= 2 and 0 <= w3 <= 2 and 0 <= p <= 1 and 0 <= v <= 3'], family='semantics', twin=True, kernels=K, timeout=(90, 300),
         grid={'k1': [0, 1, 2], 'init': [0, 1, 2]}, canaries=[('database-cached-per-instance', _canary_cached_db)],
         bounds='three LIVE store instances (AA, BB, default namespace) on one file, each primed with a read; a program of three operations {update, delete, delete_all} issued through those same instances in any interleaving (stores symbolic, first kind per condition): afterwards the live instances and freshly opened ones all return exactly the reference model')
def live_instances(w1: int, k2: int, w2: int, k3: int, w3: int, p: int, v: int, k1: int, init: int) -> bool:
    w1, k2, w2, k3, w3, p, v = C(w1, 0, 2), C(k2, 0, 2), C(w2, 0, 2), C(k3, 0, 2), C(w3, 0, 2), C(p, 0, 1), C(v, 0, 3)
    with untraced():
        fs = FS()
        install(fs)
        model = {}
        if init >= 1:
            model['AA:AA'] = {'peer0': canon(variant(1).to_dict())}
        if init == 2:
            model['BB:BB'] = {'peer1': canon(variant(2).to_dict())}
        if init:
            fs.files[PATH] = json.dumps(model, sort_keys=True, indent=4)
            fs.dirs.add('/x')
        stores = [store(fs, NS[w]) for w in (0, 1, 2)]
        for st in stores:
            run(st.get_all())
        for kind, which, peer, var in ((k1, w1, p, v), (k2, w2, 1 - p, (v + 1) % 4), (k3, w3, p, (v + 2) % 4)):
            _apply(fs, model, kind, which, peer, var, stores)
            if not _check(fs, model):
                return False
            for w in (0, 1, 2):
                ns = _effective_ns(model, w)
                want = {n: bk.PairingKeys.from_dict(d) for n, d in model.get(ns, {}).items()}
                if dict(run(stores[w].get_all())) != want:
                    return False
        return True


# ------------------------------------------------------------------------------------------
def _canary_replace_before_close():
    async def save(self, db):
        if not self.directory_name.exists():
            self.directory_name.mkdir(parents=True, exist_ok=True)
        temp_filename = self.filename.with_name(self.filename.name + ".tmp")
        with bk.open(temp_filename, 'w', encoding='utf-8') as output:
            output.write('{')
            bk.os.replace(temp_filename, self.filename)
            output.write(json.dumps(db, sort_keys=True, indent=4)[1:])
    bk.JsonKeyStore.save = save


@harness(pre=['0 <= k <= 60 and 0 <= v <= 3 and 0 <= peer <= 1'], family='crash', twin=True, kernels=K, timeout=(60, 240),
         canaries=[('rename-before-the-data-is-written', _canary_replace_before_close)],
         grid={'kind': [0, 1, 2], 'which': [0, 2], 'init': [0, 1, 2]},
         bounds='a crash injected before file-system step k (symbolic, 0..60: directory creation, temp-file open, every write, close, rename) of update / delete / delete_all on an explicit or the default namespace, from an absent / one-namespace / two-namespace file: the file on disk parses and equals the complete previous or the complete new state')
def crash_atomic(k: int, v: int, peer: int, kind: int, which: int, init: int) -> bool:
    k, v, peer = C(k, 0, 60), C(v, 0, 3), C(peer, 0, 1)      # realised: one concrete crash point per path
    with untraced():
        return _crash_atomic_concrete(k, v, peer, kind, which, init)


def _crash_atomic_concrete(k, v, peer, kind, which, init):
    fs = FS()
    install(fs)
    model = {}
    if init >= 1:
        model['AA:AA'] = {'peer0': canon(variant(1).to_dict()), 'peer1': canon(variant(0).to_dict())}
    if init == 2:
        model['BB:BB'] = {'peer1': canon(variant(2).to_dict())}
    if init:
        fs.files[PATH] = json.dumps(model, sort_keys=True, indent=4)
        fs.dirs.add('/x')
    before = canon(model)
    after_model = canon(model)
    fs.crash_at = k
    fs.step = 0
    crashed = False
    try:
        _apply(fs, after_model, kind, which, peer, v)
    except Crash:
        crashed = True
    fs.crash_at = -1
    if PATH not in fs.files:
        return init == 0
    try:
        db = json.loads(fs.files[PATH])
    except Exception:
        return False
    if not isinstance(db, dict):
        return False

    def strip(d):      # an empty namespace map is the same state as no map
        return {n: m for n, m in d.items() if m}
    if not crashed:
        return strip(db) == strip(after_model)
    return strip(db) == strip(before) or strip(db) == strip(canon(after_model_full(before, kind, which, peer, v)))


def after_model_full(before, kind, which, peer, v):
    m = canon(before)
    ns = _effective_ns(m, which)
    name = ['peer0', 'peer1'][peer]
    if kind == 0:
        m.setdefault(ns, {}).setdefault(name, {}).update(canon(variant(v).to_dict()))
    elif kind == 1:
        if name in m.get(ns, {}):
            m[ns].pop(name)
    else:
        m.setdefault(ns, {}).clear()
    return m
