"""C10 — the ATT server answers each request exactly once and within ATT_MTU.

Real bumble.gatt_server.Server (all on_att_* handlers, AsyncRunner.run_in_task, send_response) under
the deterministic event loop, with a stub device/bearer recording what is transmitted.
"""
import struct

from vf.e1 import harness, untraced, concrete as C
from vf import flags as _flags
from vf import detloop
from vf.props.gattstub import StubDevice, StubBearer, StubEnhancedBearer, make_server, feed, pdus

from bumble import att, gatt, gatt_server, core

ASSUMPTIONS = [
    'ATT PDUs reach Server.on_gatt_pdu parsed by ATT_PDU.from_bytes (as Device.on_gatt_pdu does); PDUs whose parameters are shorter than the fixed layout of their opcode are outside this check (C17 covers them)',
    'an undefined opcode without the command flag may be answered with an Error Response or ignored (DESIGN 3.0)',
    'database: one service, two characteristics (+ CCCD when notifying); value lengths, MTU and permissions symbolic',
    'deterministic event loop (vf/detloop.py) instead of asyncio',
]

K = ('bumble.gatt_server.Server.on_gatt_pdu', 'bumble.gatt_server.Server.on_att_request', 'bumble.gatt_server.Server.send_response',
     'bumble.utils.AsyncRunner.run_in_task', 'bumble.att.ATT_PDU.from_bytes', 'bumble.att.Attribute.read_value', 'bumble.att.Attribute.write_value')
P = att.Attribute.Permissions
READ = gatt.Characteristic.Properties.READ
U = core.UUID.from_16_bits

RESPONSE_OF = {0x02: 0x03, 0x04: 0x05, 0x06: 0x07, 0x08: 0x09, 0x0A: 0x0B, 0x0C: 0x0D, 0x0E: 0x0F, 0x10: 0x11, 0x12: 0x13, 0x16: 0x17, 0x18: 0x19, 0x20: 0x21}


def _B(*xs):
    return bytes(list(xs))


def _db(l1, l2, perm1=None, perm2=None, same_uuid=False, svc128=False, extra=0):
    """database built outside the tracer from concrete parts; the symbolic quantities (value lengths,
    permission masks) are assigned afterwards under the tracer"""
    with untraced():
        rw = int(P.READABLE | P.WRITEABLE)
        c1 = gatt.Characteristic(U(0x2A00), READ | gatt.Characteristic.Properties.WRITE, rw, b'')
        c2 = gatt.Characteristic(U(0x2A00 if same_uuid else 0x2A01), READ | gatt.Characteristic.Properties.WRITE, rw, b'')
        dev, server = make_server([c1, c2], service_uuid=core.UUID('3A12C182-14E2-4FE0-8C5B-65D7C569F9DB') if svc128 else None)
        if extra == 1:
            server.add_service(gatt.Service(U(0x180F), [gatt.Characteristic(U(0x2A19), READ, P.READABLE, b'\x64')]))
        elif extra == 2:
            server.add_service(gatt.Service(U(0x180F), [gatt.Characteristic(core.UUID('3A12C182-14E2-4FE0-8C5B-65D7C569F9DB'), READ, P.READABLE, b'\x64')]))
    c1.value = bytes(l1)
    c2.value = bytes(l2)
    if perm1 is not None:
        c1.permissions = perm1
    if perm2 is not None:
        c2.permissions = perm2
    return dev, server, c1, c2


_L1 = '(0 <= l1 <= 1 or mtu - 5 <= l1 <= mtu + 1)'
_L2 = '(0 <= l2 <= 1 or (0 <= l2 and mtu - 4 - l1 <= l2 <= mtu - l1))'
_MTUS = [(('quick',), [23]), (('thorough',), [23, 24, 27, 48])]


def _g(**kw):
    """grids: mtu per tier x the given concrete parameters"""
    return [(t, dict({'mtu': m}, **kw)) for t, m in _MTUS]


def _ok(dev, bearer, request_opcode):
    """exactly one PDU: the matching response or an Error Response naming the request; within ATT_MTU"""
    out = pdus(dev)
    if len(out) != 1:
        return False
    r = out[0]
    if len(r) > bearer.att_mtu or len(r) == 0:
        return False
    if r[0] == 0x01:
        return len(r) == 5 and r[1] == request_opcode
    return r[0] == RESPONSE_OF[request_opcode]


def _canary_no_error_response():
    async def read_multiple(self, bearer, request):
        values = []
        for handle in request.set_of_handles:
            attribute = self.get_attribute(handle)
            if attribute is None:
                return          # forgot the error response
            values.append(await attribute.read_value(bearer))
        self.send_response(bearer, att.ATT_Read_Multiple_Response(set_of_values=b''.join(values)[: bearer.att_mtu - 1]))
    gatt_server.Server.on_att_read_multiple_request = gatt_server.utils.AsyncRunner.run_in_task()(read_multiple)


def _canary_mtu_overflow():
    async def read(self, bearer, request):
        attribute = self.get_attribute(request.attribute_handle)
        if attribute is None:
            self.send_response(bearer, att.ATT_Error_Response(request_opcode_in_error=request.op_code, attribute_handle_in_error=request.attribute_handle, error_code=att.ATT_INVALID_HANDLE_ERROR))
            return
        value = await attribute.read_value(bearer)
        self.send_response(bearer, att.ATT_Read_Response(attribute_value=value[:bearer.att_mtu]))      # off by one
    gatt_server.Server.on_att_read_request = gatt_server.utils.AsyncRunner.run_in_task()(read)


# ------------------------------------------------------------------------------------------
@harness(pre=[_L1, '0 <= h <= 8 or h == 0xFFFF'], family='read', twin=True, grids=_g(), kernels=K + ('bumble.gatt_server.Server.on_att_read_request',),
         canaries=[('read-response-one-byte-too-long', _canary_mtu_overflow)], timeout=(30, 120),
         bounds='Read Request: MTU per condition (23; thorough also 24, 27, 48), value length in {0,1, MTU-5..MTU+1} symbolic, handle 0..8 or 0xFFFF')
def read_request(mtu: int, l1: int, h: int) -> bool:
    with detloop.running() as loop:
        dev, server, c1, c2 = _db(l1, 3)
        b = StubBearer(mtu)
        feed(server, b, _B(0x0A) + struct.pack('<H', h), loop)
        if not _ok(dev, b, 0x0A):
            return False
        r = pdus(dev)[0]
        if h == c1.handle:
            return r[0] == 0x0B and len(r) == 1 + min(l1, mtu - 1)
        return True


@harness(pre=[_L1, '0 <= off <= 2 or (0 <= off and l1 - 1 <= off <= l1 + 1)'], family='read', grids=_g(hsel=[0, 1, 2]), kernels=K + ('bumble.gatt_server.Server.on_att_read_blob_request',),
         timeout=(30, 120), bounds='Read Blob Request: MTU per condition, value length around MTU, offset in {0..2, len-1..len+1}, handle in {value, declaration, missing}')
def read_blob_request(mtu: int, l1: int, off: int, hsel: int) -> bool:
    with detloop.running() as loop:
        dev, server, c1, c2 = _db(l1, 3)
        b = StubBearer(mtu)
        h = [c1.handle, c1.handle - 1, 0x0F00][hsel]
        feed(server, b, _B(0x0C) + struct.pack('<HH', h, off), loop)
        return _ok(dev, b, 0x0C)


@harness(pre=[_L1, '0 <= l2 <= 1 or (0 <= l2 and l1 - 1 <= l2 <= l1 + 1)'], family='read-by-type',
         kernels=K + ('bumble.gatt_server.Server.on_att_read_by_type_request',), timeout=(60, 240),
         grids=[(('quick',), {'mtu': [23], 'same': [0, 1], 'wide': [0, 1], 'start': [1], 'end': [0xFFFF]}), (('thorough',), {'mtu': [23, 24, 48], 'same': [0, 1], 'wide': [0, 1], 'start': [0, 1, 4], 'end': [3, 6, 0xFFFF]})],
         bounds='Read By Type: MTU per condition, two values with lengths around MTU / around each other, handle range symbolic, 16- or 128-bit type, one or two matching attributes')
def read_by_type_request(mtu: int, l1: int, l2: int, start: int, end: int, same: int, wide: int) -> bool:
    with detloop.running() as loop:
        dev, server, c1, c2 = _db(l1, l2, same_uuid=bool(same))
        b = StubBearer(mtu)
        t = core.UUID.from_16_bits(0x2A00)
        tb = t.to_bytes(force_128=True) if wide else t.to_bytes()
        feed(server, b, _B(0x08) + struct.pack('<HH', start, end) + tb, loop)
        return _ok(dev, b, 0x08)


@harness(pre=['0 <= start <= 8 and (0 <= end <= 8 or end == 0xFFFF)'], family='discovery', grids=_g(svc128=[0, 1], gt=[0x2800, 0x2801, 0x2803]),
         kernels=K + ('bumble.gatt_server.Server.on_att_read_by_group_type_request',), timeout=(30, 120),
         bounds='Read By Group Type: MTU 23..64, handle range symbolic, group type primary/secondary/characteristic, 16- or 128-bit service UUID, two services')
def read_by_group_type_request(mtu: int, start: int, end: int, svc128: int, gt: int) -> bool:
    with detloop.running() as loop:
        dev, server, c1, c2 = _db(2, 2, svc128=bool(svc128), extra=1)
        b = StubBearer(mtu)
        feed(server, b, _B(0x10) + struct.pack('<HHH', start, end, gt), loop)
        return _ok(dev, b, 0x10)


@harness(pre=['0 <= start <= 9 and (0 <= end <= 9 or end == 0xFFFF)'], family='discovery', grids=_g(svc128=[0, 1]),
         kernels=K + ('bumble.gatt_server.Server.on_att_find_information_request',), timeout=(30, 120),
         bounds='Find Information: MTU 23..64, handle range symbolic, database with 16-bit and (svc128) mixed UUID widths')
def find_information_request(mtu: int, start: int, end: int, svc128: int) -> bool:
    with detloop.running() as loop:
        dev, server, c1, c2 = _db(2, 2, extra=2 if svc128 else 0)
        b = StubBearer(mtu)
        feed(server, b, _B(0x04) + struct.pack('<HH', start, end), loop)
        return _ok(dev, b, 0x04)


@harness(pre=['0 <= start <= 3 and (3 <= end <= 12 or end == 0xFFFF) and 0 <= v0 <= 255'], family='discovery', grids=_g(nsvc=[0, 4, 5, 6]),
         kernels=K + ('bumble.gatt_server.Server.on_att_find_by_type_value_request',), timeout=(40, 180),
         bounds='Find By Type Value (primary service by UUID): MTU per condition, 1/5/6/7 instances of the same service, handle range and one value byte symbolic')
def find_by_type_value_request(mtu: int, start: int, end: int, v0: int, nsvc: int) -> bool:
    with detloop.running() as loop:
        dev, server, c1, c2 = _db(1, 1)
        with untraced():
            for _ in range(nsvc):
                server.add_service(gatt.Service(U(0x1800), []))
        b = StubBearer(mtu)
        feed(server, b, _B(0x06) + struct.pack('<HHH', start, end, 0x2800) + _B(v0, 0x18), loop)
        return _ok(dev, b, 0x06)


@harness(pre=[_L1, _L2], family='read-multiple',
         kernels=K + ('bumble.gatt_server.Server.on_att_read_multiple_request', 'bumble.gatt_server.Server.on_att_read_multiple_variable_request'),
         grids=_g(op=[0x0E, 0x20], handles=['12', '21', '1x', 'x1', '1', '']), timeout=(60, 240), canaries=[('read-multiple-missing-handle-no-reply', _canary_no_error_response)],
         bounds='Read Multiple / Read Multiple Variable: MTU per condition, two value lengths around MTU and around MTU minus the first, handle sets {both, reversed, with a missing handle, single, empty}')
def read_multiple_request(mtu: int, l1: int, l2: int, op: int, handles: str) -> bool:
    with detloop.running() as loop:
        dev, server, c1, c2 = _db(l1, l2)
        b = StubBearer(mtu)
        hs = [{'1': c1.handle, '2': c2.handle, 'x': 0x0F00}[c] for c in handles]
        feed(server, b, _B(op) + b''.join(struct.pack('<H', h) for h in hs), loop)
        return _ok(dev, b, op)


@harness(pre=['0 <= l1 <= 2 and 0 <= p1 <= 255 and 0 <= enc <= 1'], family='read-multiple',
         kernels=K + ('bumble.gatt_server.Server.on_att_read_multiple_request', 'bumble.gatt_server.Server.on_att_read_multiple_variable_request'),
         grids=_g(op=[0x0E, 0x20, 0x08, 0x06]), timeout=(60, 240),
         bounds='requests touching an attribute with a symbolic 8-bit permission mask on a plain/encrypted link: still exactly one reply (Read Multiple, Read Multiple Variable, Read By Type, Find By Type Value)')
def protected_attribute_still_answered(mtu: int, l1: int, p1: int, enc: int, op: int) -> bool:
    with detloop.running() as loop:
        dev, server, c1, c2 = _db(l1, 2, perm1=p1)
        b = StubBearer(mtu, enc=bool(enc))
        if op in (0x0E, 0x20):
            body = struct.pack('<HH', c2.handle, c1.handle)
        elif op == 0x08:
            body = struct.pack('<HHH', 1, 0xFFFF, 0x2A00)
        else:
            body = struct.pack('<HHH', 1, 0xFFFF, 0x2A00) + bytes(l1)
        feed(server, b, _B(op) + body, loop)
        return _ok(dev, b, op)


@harness(pre=['0 <= n <= 3 and 0 <= h <= 8 and 0 <= p1 <= 255'], family='write', grids=_g(op=[0x12, 0x52]),
         kernels=K + ('bumble.gatt_server.Server.on_att_write_request', 'bumble.gatt_server.Server.on_att_write_command'), timeout=(30, 120),
         bounds='Write Request / Write Command: value length 0..3, handle 0..8, permission mask symbolic: request -> one reply, command -> none')
def write_request_and_command(mtu: int, n: int, h: int, p1: int, op: int) -> bool:
    with detloop.running() as loop:
        dev, server, c1, c2 = _db(2, 2, perm1=p1)
        b = StubBearer(mtu)
        feed(server, b, _B(op) + struct.pack('<H', h) + bytes(n), loop)
        if op == 0x52:
            return pdus(dev) == []
        return _ok(dev, b, 0x12)


@harness(pre=['0 <= n <= 4 and 0 <= v0 <= 4 and 0 <= v1 <= 1 and 0 <= kind <= 1'], family='write', twin=True, grids=_g(op=[0x12, 0x52]),
         kernels=K + ('bumble.gatt_server.Server.on_att_write_request', 'bumble.gatt_server.Server.on_att_write_command', 'bumble.gatt_server.Server.write_cccd', 'bumble.gatt_server.Server.read_cccd'), timeout=(90, 240),
         bounds='Write Request / Write Command to the Client Characteristic Configuration descriptor the server generates for a notifying or indicating characteristic: value length 0..4 (well-formed is 2), first byte 0..3 or 0xFF, second byte 0 or 1 (the server formats the value into a log line, which would realise free bytes one by one): a request gets exactly one reply (Write Response or an Error Response naming it), a command none; a Read Request of the descriptor afterwards is answered with a two-byte value')
def cccd_write_answered(mtu: int, n: int, v0: int, v1: int, kind: int, op: int) -> bool:
    kind, n, v0, v1 = C(kind, 0, 1), C(n, 0, 4), C(v0, 0, 4), C(v1, 0, 1)
    v0 = 0xFF if v0 == 4 else v0
    with detloop.running() as loop:
        with untraced():
            props = READ | (gatt.Characteristic.Properties.NOTIFY if kind == 0 else gatt.Characteristic.Properties.INDICATE)
            ch = gatt.Characteristic(U(0x2A19), props, P.READABLE, b'\x64')
            dev, server = make_server([ch])
            cccd = server.attributes[-1]
        if cccd.type != gatt.GATT_CLIENT_CHARACTERISTIC_CONFIGURATION_DESCRIPTOR:
            return False
        b = StubBearer(mtu)
        feed(server, b, _B(op) + struct.pack('<H', cccd.handle) + bytes([v0, v1, 0, 0][:n]), loop)
        if op == 0x52:
            if pdus(dev) != []:
                return False
        elif not _ok(dev, b, 0x12):
            return False
        dev.sent.clear()
        feed(server, b, _B(0x0A) + struct.pack('<H', cccd.handle), loop)
        out = pdus(dev)
        return len(out) == 1 and out[0][0] == 0x0B and len(out[0]) == 3


@harness(pre=['0 <= client_mtu <= 0xFFFF and 23 <= smax <= 517'], family='mtu', grids=_g(), timeout=(60, 240), kernels=K + ('bumble.gatt_server.Server.on_att_exchange_mtu_request',),
         bounds='Exchange MTU: client MTU 16 bit, server max 23..517: one response, bearer MTU = min(server max, client) when client >= 23, later responses fit it')
def exchange_mtu_request(client_mtu: int, mtu: int, smax: int) -> bool:
    with detloop.running() as loop:
        dev, server, c1, c2 = _db(3, 2)
        server.max_mtu = smax
        b = StubBearer(mtu)
        feed(server, b, _B(0x02) + struct.pack('<H', client_mtu), loop)
        out = pdus(dev)
        if len(out) != 1 or out[0] != _B(0x03) + struct.pack('<H', smax) or len(out[0]) > mtu:
            return False
        want = min(smax, client_mtu) if client_mtu >= 23 else mtu
        if b.att_mtu != want:
            return False
        dev.sent.clear()
        feed(server, b, _B(0x0A) + struct.pack('<H', c1.handle), loop)
        return _ok(dev, b, 0x0A)


@harness(pre=['249 <= l1 <= 258'], family='large', kernels=K, timeout=(60, 180),
         grid={'mtu': [258, 300, 517], 'op': ['read', 'bytype', 'multi', 'multivar', 'blob']},
         bounds='large MTUs 258/300/517 with value lengths 249..258 (the 251/253-byte caps of the list responses and the one-byte length field)')
def large_values(l1: int, mtu: int, op: str) -> bool:
    with detloop.running() as loop:
        dev, server, c1, c2 = _db(l1, 4)
        b = StubBearer(mtu)
        if op == 'read':
            req, code = _B(0x0A) + struct.pack('<H', c1.handle), 0x0A
        elif op == 'bytype':
            req, code = _B(0x08) + struct.pack('<HHH', 1, 0xFFFF, 0x2A00), 0x08
        elif op == 'multi':
            req, code = _B(0x0E) + struct.pack('<HH', c1.handle, c2.handle), 0x0E
        elif op == 'multivar':
            req, code = _B(0x20) + struct.pack('<HH', c1.handle, c2.handle), 0x20
        else:
            req, code = _B(0x0C) + struct.pack('<HH', c1.handle, 3), 0x0C
        feed(server, b, req, loop)
        return _ok(dev, b, code)


# ------------------------------------------------------------------------------------------
# every opcode: requests without a handler get "not supported", everything else is silent
def _min_len(op):
    """shortest all-zero parameter block that ATT_PDU.from_bytes accepts for this opcode (layouts are read from the class tables)"""
    for n in range(0, 24):
        try:
            att.ATT_PDU.from_bytes(bytes([op]) + bytes(n))
            return n
        except Exception:
            continue
    return None


_REQS = sorted(int(o) for o in att.ATT_REQUESTS)


def _has_handler(op):
    try:
        return hasattr(gatt_server.Server, 'on_' + att.Opcode(op).name.lower())
    except Exception:
        return False


_UNHANDLED_REQS = [(o, _min_len(o)) for o in _REQS if not _has_handler(o) and _min_len(o) is not None]
_SILENT = [(o, _min_len(o)) for o in range(0, 256, 2) if o not in _REQS and not _has_handler(o) and _min_len(o) is not None]


@harness(pre=['0 <= x0 <= 255 and 0 <= x1 <= 255 and 0 <= x2 <= 255 and 0 <= x3 <= 255'], family='opcodes', twin=True, kernels=K,
         grid={'k': list(range(len(_UNHANDLED_REQS))), 'extra': [0, 2]},
         bounds='request opcodes without a dedicated handler (Prepare/Execute Write; read from the classes on each run), parameter block = minimal layout + 0/2 bytes, first 4 bytes symbolic')
def unhandled_request_opcodes(x0: int, x1: int, x2: int, x3: int, k: int, extra: int) -> bool:
    with detloop.running() as loop:
        dev, server, c1, c2 = _db(2, 2)
        b = StubBearer(23)
        op, n = _UNHANDLED_REQS[k]
        body = (_B(x0, x1, x2, x3) + bytes(24))[:n + extra]
        feed(server, b, _B(op) + body, loop)
        out = pdus(dev)
        return len(out) == 1 and out[0][0] == 0x01 and out[0][1] == op and len(out[0]) == 5


@harness(pre=['0 <= i < 16 and 0 <= x0 <= 255 and 0 <= x1 <= 255 and 0 <= x2 <= 255'], family='opcodes', kernels=K, timeout=(40, 120),
         grid={'chunk': [0, 1, 2, 3, 4, 5, 6, 7]},
         bounds='every even (client-to-server) opcode 0..254 that is neither a request nor has a server handler (commands, undefined; odd opcodes are routed to the client by Device.on_gatt_pdu), 8 chunks selected by symbolic index, minimal layout + symbolic bytes: nothing is sent')
def silent_opcodes(i: int, x0: int, x1: int, x2: int, chunk: int) -> bool:
    with detloop.running() as loop:
        dev, server, c1, c2 = _db(2, 2)
        b = StubBearer(23)
        ops = _SILENT[chunk::8]
        if i >= len(ops):
            return True
        op, n = ops[int(i)]
        body = (_B(x0, x1, x2) + bytes(24))[:max(n, 2)]
        server.on_gatt_pdu(b, att.ATT_PDU.from_bytes(_B(op) + body))
        loop.run_ready()
        return pdus(dev) == []


# ------------------------------------------------------------------------------------------
# notifications / indications: size and at most one outstanding indication per bearer
@harness(pre=['(0 <= l1 <= 1 or mtu - 4 <= l1 <= mtu - 2) and 0 <= o1 <= 2 and 0 <= o2 <= 2 and 0 <= o3 <= 2 and 0 <= o4 <= 2'], family='indicate', twin=True,
         kernels=('bumble.gatt_server.Server._indicate_single_bearer', 'bumble.gatt_server.Server.indicate_subscriber', 'bumble.gatt_server.Server.on_att_handle_value_confirmation',
                  'bumble.gatt_server.Server._notify_single_subscriber'), timeout=(60, 200),
         grids=[(('quick',), {'o1': [0], 'o2': [0], 'mtu': [23]}), (('thorough',), {'o1': [0, 1, 2], 'o2': [0, 1, 2], 'mtu': [23, 24]})],
         bounds='schedule of 4 steps from {start another indication, deliver a confirmation, start a notification}, value length in {0,1,MTU-4..MTU-2}, MTU per condition: every PDU <= MTU, <= 1 indication awaiting confirmation at any time')
def indications_one_at_a_time(mtu: int, l1: int, o1: int, o2: int, o3: int, o4: int) -> bool:
    with detloop.running() as loop:
        ch = gatt.Characteristic(U(0x2A00), READ | gatt.Characteristic.Properties.NOTIFY | gatt.Characteristic.Properties.INDICATE, P.READABLE, bytes(l1))
        dev, server = make_server([ch])
        b = StubBearer(mtu)
        server.subscribers[b] = {ch.handle: b'\x03\x00'}
        tasks = []
        confirmed = 0
        for o in (o1, o2, o3, o4):
            if o == 0:
                tasks.append(loop.create_task(server.indicate_subscriber(b, ch)))
            elif o == 1:
                sent_ind = sum(1 for p in pdus(dev) if p[0] == 0x1D)
                if sent_ind > confirmed:
                    server.on_gatt_pdu(b, att.ATT_PDU.from_bytes(b'\x1e'))
                    confirmed += 1
            else:
                tasks.append(loop.create_task(server.notify_subscriber(b, ch)))
            loop.run_ready()
            out = pdus(dev)
            if any(len(p) > mtu for p in out):
                return False
            if any(p[0] in (0x1B, 0x1D) and len(p) != 3 + min(l1, mtu - 3) for p in out):
                return False
            outstanding = sum(1 for p in out if p[0] == 0x1D) - confirmed
            if outstanding > 1 or outstanding < 0:
                return False
        # drain: confirm until every indication task is done
        for _ in range(6):
            if sum(1 for p in pdus(dev) if p[0] == 0x1D) > confirmed:
                server.on_gatt_pdu(b, att.ATT_PDU.from_bytes(b'\x1e'))
                confirmed += 1
            loop.run_ready()
        return all(t.done() and t.exception() is None for t in tasks)


@harness(pre=['0 <= l <= 70 and 0 <= x <= 255 and 0 <= kind <= 1'], family='indicate', twin=True, timeout=(90, 240), grid={'emtu': [23, 64], 'cmtu': [23, 64]},
         kernels=('bumble.gatt_server.Server._notify_single_subscriber', 'bumble.gatt_server.Server._indicate_single_bearer', 'bumble.gatt_server.Server.notify_subscriber', 'bumble.gatt_server.Server.indicate_subscriber'),
         bounds='a notification / indication on an ENHANCED bearer whose ATT_MTU (23 or 64) differs from or equals the MTU of the connection\'s fixed bearer (23 or 64), value length 0..70 (symbolic), content byte symbolic: the PDU goes out on that bearer, is never longer than THAT bearer\'s MTU and carries the first min(len, MTU-3) bytes of the value')
def enhanced_bearer_notification_size(l: int, x: int, kind: int, emtu: int, cmtu: int) -> bool:
    from vf.props.gattstub import StubEnhancedBearer
    kind = C(kind, 0, 1)
    with detloop.running() as loop:
        value = bytes([x]) + bytes(l - 1) if l else b''
        ch = gatt.Characteristic(U(0x2A00), READ | gatt.Characteristic.Properties.NOTIFY | gatt.Characteristic.Properties.INDICATE, P.READABLE, value)
        dev, server = make_server([ch])
        conn = StubBearer(cmtu)
        eb = StubEnhancedBearer(conn, emtu)
        server.subscribers[eb] = {ch.handle: b'\x03\x00'}
        t = loop.create_task(server.notify_subscriber(eb, ch) if kind == 0 else server.indicate_subscriber(eb, ch))
        loop.run_ready()
        if pdus(dev) or len(eb.written) != 1:
            return False
        pdu = eb.written[0]
        want = value[:emtu - 3]
        if len(pdu) > emtu or pdu[0] != (0x1B if kind == 0 else 0x1D) or pdu[3:] != want:
            return False
        if kind == 1:
            server.on_gatt_pdu(eb, att.ATT_PDU.from_bytes(b'\x1e'))
            loop.run_ready()
        return t.done() and t.exception() is None


@harness(pre=['0 <= o2 <= 3 and 0 <= o3 <= 3 and 0 <= o4 <= 3 and 0 <= x <= 255'], family='indicate', twin=True, timeout=(90, 200), grid={'o1': [0, 1, 2, 3]},
         kernels=('bumble.gatt_server.Server.on_att_handle_value_confirmation', 'bumble.gatt_server.Server._indicate_single_bearer', 'bumble.gatt_server.Server.on_gatt_pdu'),
         bounds='schedule of 4 steps from {start an indication, deliver a confirmation (pending or not), deliver TWO confirmations back to back, let the loop run}: the server never sends anything in reply to a confirmation (only indications leave), every indication that was confirmed completes, and a fresh indication afterwards still works')
def confirmations_never_answered(o1: int, o2: int, o3: int, o4: int, x: int) -> bool:
    with detloop.running() as loop:
        ch = gatt.Characteristic(U(0x2A00), READ | gatt.Characteristic.Properties.INDICATE, P.READABLE, _B(x))
        dev, server = make_server([ch])
        b = StubBearer(23)
        server.subscribers[b] = {ch.handle: b'\x02\x00'}
        tasks = []
        for o in (o1, o2, o3, o4):
            if o == 0:
                tasks.append(loop.create_task(server.indicate_subscriber(b, ch)))
                loop.run_ready()
            elif o == 1:
                server.on_gatt_pdu(b, att.ATT_PDU.from_bytes(b'\x1e'))
                loop.run_ready()
            elif o == 2:
                server.on_gatt_pdu(b, att.ATT_PDU.from_bytes(b'\x1e'))
                server.on_gatt_pdu(b, att.ATT_PDU.from_bytes(b'\x1e'))
                loop.run_ready()
            else:
                loop.run_ready()
            if any(p[0] != 0x1D for p in pdus(dev)):
                return False
        # confirm whatever is still waiting, one at a time
        for _ in range(6):
            sent = sum(1 for p in pdus(dev) if p[0] == 0x1D)
            done = sum(1 for t in tasks if t.done())
            if sent > done:
                server.on_gatt_pdu(b, att.ATT_PDU.from_bytes(b'\x1e'))
            loop.run_ready()
        if not all(t.done() and t.exception() is None for t in tasks):
            return False
        t = loop.create_task(server.indicate_subscriber(b, ch))
        loop.run_ready()
        server.on_gatt_pdu(b, att.ATT_PDU.from_bytes(b'\x1e'))
        loop.run_ready()
        return t.done() and t.exception() is None and all(p[0] == 0x1D for p in pdus(dev))


_flags.int_format_placeholder = True     # log f-strings with symbolic ints are not the subject here (see vf/flags.py)
