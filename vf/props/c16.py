"""C16 — teardown: after a disconnection or transport loss at any point of a procedure nothing is left behind
and nobody waits forever.

System level: two complete stacks (Device, Host, Controller, LocalLink) under the deterministic loop.  A
procedure is started, exactly k scheduler steps later (k symbolic; every callback of the loop is a boundary, a
superset of the message boundaries) one of four cuts happens: the local device disconnects, the peer
disconnects, both controllers drop the link (supervision timeout), or the local host loses its HCI
transport.  After quiescence every awaited call has ended and every per-connection registry of every layer
is empty.  The choice of k is a solver fork; every path then runs the real code concretely (no symbolic data
flows through the stack here).

L2CAP level: two real ChannelManagers on the in-memory wire (classic channels are BR/EDR only, which the
LocalLink world above does not set up): channel open / close procedures cut after k delivered frames.
"""
import asyncio
import collections

from vf.e1 import harness, untraced, concrete as C
from vf import flags as _flags
from vf import detloop, detenv
from vf.props.l2capstub import Wire

from bumble import hci, device as bdev, controller as ctl, link as lnk, host as bhost, gatt, l2cap
from bumble.keys import MemoryKeyStore

_flags.int_format_placeholder = True

ASSUMPTIONS = [
    'system level: deterministic clock/randomness/loop (vf/detenv.py, vf/detloop.py); FIFO order-preserving LocalLink; one LE connection, central = side 0',
    'cut points: after each of the first k callbacks of the event loop since the procedure started (k up to the length of the undisturbed procedure, so "after completion" is included)',
    'transport loss: nothing is delivered to or from the local host after the loss; operations *started* after the loss (k = 0) are outside; only the local side is examined',
    'a waiter that ends through its own time-out (GATT 30 s) counts as ended: the virtual clock runs until nothing is scheduled',
    'BR/EDR system-level procedures (RFCOMM/SDP/AVDTP over two Devices) are outside; their L2CAP substrate is cut at the wire level here and RFCOMM link loss is in C09',
]
K = ('bumble.host.Host.on_hci_disconnection_complete_event', 'bumble.host.Host.on_transport_lost', 'bumble.host.DataPacketQueue.flush', 'bumble.device.Device.on_disconnection',
     'bumble.device.Device.on_flush', 'bumble.device.Connection.cancel_on_disconnection', 'bumble.utils.cancel_on_event', 'bumble.gatt_client.Client.on_disconnection',
     'bumble.gatt_server.Server.on_disconnection', 'bumble.gatt_server.Server.indicate_subscriber', 'bumble.smp.Session.on_disconnection', 'bumble.smp.Manager.on_session_end',
     'bumble.l2cap.ChannelManager.on_disconnection', 'bumble.l2cap.ChannelManager.create_le_credit_based_channel', 'bumble.l2cap.LeCreditBasedChannel.abort', 'bumble.l2cap.ClassicChannel.abort',
     'bumble.controller.Controller.on_le_disconnected', 'bumble.controller.Controller.on_hci_disconnect_command')


def _settle(loop, n=20000):
    for _ in range(n):
        loop.run_ready()
        if not loop.ready and not loop.advance():
            return True
    return False


def _step(loop):
    h = loop.ready.popleft()
    if not h.cancelled_:
        h.cb(*h.args)


class _World:
    pass


class _Null:
    def on_packet(self, packet):
        pass


def _world(loop, prepare):
    w = _World()
    link = lnk.LocalLink()
    devs = []
    for i, addr in enumerate(('F0:F1:F2:F3:F4:F5', 'F5:F4:F3:F2:F1:F0')):
        c = ctl.Controller(f'C{i}', link=link)
        d = bdev.Device(f'D{i}', address=hci.Address(addr), host=bhost.Host(c, c))
        d.keystore = MemoryKeyStore()
        devs.append(d)
    P = gatt.Characteristic.Properties
    w.ch = gatt.Characteristic('2A19', P.READ | P.WRITE | P.INDICATE | P.NOTIFY, gatt.Characteristic.READABLE | gatt.Characteristic.WRITEABLE, bytes([7]))
    devs[1].add_service(gatt.Service('180F', [w.ch]))
    w.ch0 = gatt.Characteristic('2A19', P.READ | P.INDICATE | P.NOTIFY, gatt.Characteristic.READABLE, bytes([9]))
    devs[0].add_service(gatt.Service('180F', [w.ch0]))
    for d in devs:
        loop.create_task(d.power_on())
    _settle(loop)
    w.chans = []
    devs[1].create_l2cap_server(l2cap.LeCreditBasedChannelSpec(psm=0x81), handler=w.chans.append)
    loop.create_task(devs[1].start_advertising(auto_restart=False))
    _settle(loop)
    t = loop.create_task(devs[0].connect(devs[1].random_address))
    _settle(loop)
    w.link, w.devs, w.conn = link, devs, t.result()
    w.peer_conn = list(devs[1].connections.values())[0]
    w.peer = bdev.Peer(w.conn)
    w.c = w.channel = None
    if prepare in (1, 2):
        async def disc():
            await w.peer.discover_services()
            await w.peer.discover_characteristics()
        loop.create_task(disc())
        _settle(loop)
        w.c = w.peer.get_characteristics_by_uuid(gatt.GATT_BATTERY_LEVEL_CHARACTERISTIC)[0]
    if prepare == 2:
        loop.create_task(w.c.subscribe(lambda v: None, prefer_notify=False))
        _settle(loop)
    if prepare == 3:
        t = loop.create_task(w.conn.create_l2cap_channel(l2cap.LeCreditBasedChannelSpec(psm=0x81)))
        _settle(loop)
        w.channel = t.result()
    if prepare == 4:
        t = loop.create_task(w.conn.pair())
        _settle(loop)
        assert t.done() and t.exception() is None
    if prepare == 5:
        # the CENTRAL is the GATT server here: the peripheral's client subscribes to its characteristic
        w.peer1 = bdev.Peer(w.peer_conn)

        async def sub():
            await w.peer1.discover_services()
            await w.peer1.discover_characteristics()
            c = w.peer1.get_characteristics_by_uuid(gatt.GATT_BATTERY_LEVEL_CHARACTERISTIC)[0]
            await c.subscribe(lambda v: None, prefer_notify=False)
        t = loop.create_task(sub())
        _settle(loop)
        assert t.done() and t.exception() is None, t
    if prepare == 6:
        # passkey entry: the local user never types the passkey
        from bumble.pairing import PairingConfig, PairingDelegate

        class Keyboard(PairingDelegate):
            def __init__(self):
                super().__init__(PairingDelegate.KEYBOARD_INPUT_ONLY)
                self.waiting = False

            async def get_number(self):
                self.waiting = True
                try:
                    await asyncio.get_running_loop().create_future()      # never answered
                finally:
                    self.waiting = False

        class Display(PairingDelegate):
            def __init__(self):
                super().__init__(PairingDelegate.DISPLAY_OUTPUT_ONLY)
        w.keyboard = Keyboard()
        devs[0].pairing_config_factory = lambda c: PairingConfig(sc=True, mitm=True, bonding=True, delegate=w.keyboard)
        devs[1].pairing_config_factory = lambda c: PairingConfig(sc=True, mitm=True, bonding=True, delegate=Display())
    return w


async def _write_drain(w):
    w.channel.write(bytes(3000))
    await w.channel.drain()


# name -> (preparation, side that starts it, coroutines)
PROCS = {
    'discover_all': (0, 0, lambda w: [w.peer.discover_all()]),
    'read': (1, 0, lambda w: [w.c.read_value()]),
    'write': (1, 0, lambda w: [w.c.write_value(b'\x01', with_response=True)]),
    'write_cmd_burst': (1, 0, lambda w: [w.c.write_value(bytes(20), with_response=False) for _ in range(3)]),
    'two_requests': (1, 0, lambda w: [w.c.read_value(), w.c.write_value(b'\x02', with_response=True)]),
    'subscribe': (1, 0, lambda w: [w.c.subscribe(lambda v: None, prefer_notify=False)]),
    'indicate': (2, 1, lambda w: [w.devs[1].indicate_subscribers(w.ch)]),
    'notify': (2, 1, lambda w: [w.devs[1].notify_subscribers(w.ch)]),
    'mtu': (0, 0, lambda w: [w.peer.request_mtu(100)]),
    'pair': (0, 0, lambda w: [w.conn.pair()]),
    'peer_pair': (0, 1, lambda w: [w.peer_conn.pair()]),
    'paired_idle': (4, 0, lambda w: []),
    'pair_passkey_prompt_open': (6, 0, lambda w: [w.conn.pair()]),
    'central_is_server_idle': (5, 0, lambda w: []),
    'central_is_server_indicate': (5, 0, lambda w: [w.devs[0].indicate_subscribers(w.ch0)]),
    'coc_connect': (0, 0, lambda w: [w.conn.create_l2cap_channel(l2cap.LeCreditBasedChannelSpec(psm=0x81))]),
    'coc_connect_refused': (0, 0, lambda w: [w.conn.create_l2cap_channel(l2cap.LeCreditBasedChannelSpec(psm=0x83))]),
    'ecoc_connect': (0, 0, lambda w: [w.devs[0].l2cap_channel_manager.create_enhanced_credit_based_channels(w.conn, l2cap.LeCreditBasedChannelSpec(psm=0x81), 2)]),
    'coc_disconnect': (3, 0, lambda w: [w.channel.disconnect()]),
    'coc_write_drain': (3, 0, lambda w: [_write_drain(w)]),
    'rssi': (0, 0, lambda w: [w.conn.get_rssi()]),
    'two_hci_commands': (0, 0, lambda w: [w.conn.get_rssi(), w.devs[0].host.send_command(hci.HCI_Read_BD_ADDR_Command())]),
    'conn_update': (0, 0, lambda w: [w.conn.update_parameters(10, 20, 0, 1000)]),
    'encrypt_without_key': (0, 0, lambda w: [w.conn.encrypt()]),
}
# an upper bound of the undisturbed length of each procedure in loop callbacks (checked: a longer procedure is reported)
KMAX = {'discover_all': 96, 'read': 14, 'write': 14, 'write_cmd_burst': 24, 'two_requests': 26, 'subscribe': 22, 'indicate': 16, 'notify': 8, 'mtu': 12, 'pair': 76,
        'peer_pair': 76, 'paired_idle': 1, 'pair_passkey_prompt_open': 40, 'central_is_server_idle': 1, 'central_is_server_indicate': 16, 'coc_connect': 12, 'coc_connect_refused': 12, 'ecoc_connect': 12, 'coc_disconnect': 12, 'coc_write_drain': 130, 'rssi': 6, 'two_hci_commands': 10, 'conn_update': 6, 'encrypt_without_key': 4}
CUTS = ['local-disconnect', 'peer-disconnect', 'link-loss', 'transport-lost']


def _leftovers(w, cutter):
    out = []
    for i in ((0,) if cutter == 3 else (0, 1)):
        d = w.devs[i]
        h = d.host
        if h.connections:
            out.append(f'D{i} host.connections')
        if d.connections:
            out.append(f'D{i} device.connections')
        if cutter != 3 and h.hci_sink.le_connections:
            out.append(f'D{i} controller.le_connections')
        g = d.gatt_server
        for nm in ('subscribers', 'indication_semaphores', 'pending_confirmations'):
            if getattr(g, nm):
                out.append(f'D{i} gatt_server.{nm}')
        if d.smp_manager.sessions:
            out.append(f'D{i} smp.sessions')
        m = d.l2cap_channel_manager
        for nm in ('channels', 'le_coc_channels', 'pending_credit_based_connections'):
            if any(getattr(m, nm).values()):
                out.append(f'D{i} l2cap.{nm}')
        if m.le_coc_requests:
            out.append(f'D{i} l2cap.le_coc_requests')
        q = h.le_acl_packet_queue
        if q is not None and (q.pending or q._connection_state or q._in_flight):
            out.append(f'D{i} le_acl_packet_queue pending={q.pending} in_flight={q._in_flight}')
        if h.pending_command is not None:
            out.append(f'D{i} host.pending_command')
    return out


def cut_run(proc, cutter, k):
    """None: the procedure is over before k steps.  Otherwise the list of complaints (empty = fine)."""
    detenv.reset()
    with detloop.running() as loop:
        prep, side, mk = PROCS[proc]
        w = _world(loop, prep)
        tasks = [loop.create_task(c) for c in mk(w)]
        n = 0
        while n < k and loop.ready:
            _step(loop)
            n += 1
        if n < k:
            return None
        if cutter == 0:
            tasks.append(loop.create_task(w.conn.disconnect()))
        elif cutter == 1:
            tasks.append(loop.create_task(w.peer_conn.disconnect()))
        elif cutter == 2:
            for d in w.devs:
                c = d.host.hci_sink
                for cn in list(c.le_connections.values()):
                    c.on_le_disconnected(cn, hci.HCI_CONNECTION_TIMEOUT_ERROR)
        else:
            if k == 0 or side != 0:
                return []          # started after the loss / not the side that loses its transport: outside
            h = w.devs[0].host
            h.hci_sink.host = _Null()
            h.hci_sink = _Null()
            loop.ready = collections.deque(hd for hd in loop.ready if not (getattr(hd.cb, '__self__', None) is h and hd.cb.__name__ == 'on_packet'))
            h.on_transport_lost()
        bad = []
        if not _settle(loop):
            bad.append('no quiescence')
        for i, t in enumerate(tasks):
            if not t.done():
                bad.append(f'awaited call {i} never ends')
        if getattr(w, 'keyboard', None) is not None and w.keyboard.waiting:
            bad.append('the passkey prompt of the closed connection is still open')
        return bad + _leftovers(w, cutter)


def _canary_queue_not_flushed():
    bhost.DataPacketQueue.flush = lambda self, handle: None


def _canary_coc_connecting_not_aborted():
    orig = l2cap.LeCreditBasedChannel.abort

    def abort(self):
        if self.state == self.State.CONNECTING:
            return
        orig(self)
    l2cap.LeCreditBasedChannel.abort = abort


def _canary_session_kept():
    from bumble import smp
    smp.Manager.on_session_end = lambda self, session: None


def _canary_client_waiter_kept():
    from bumble import gatt_client
    gatt_client.Client.on_disconnection = lambda self, *a: None


@harness(pre=['0 <= k <= 130'], family='system-cut', twin=True, kernels=K, timeout=(240, 900),
         grid={'proc': list(PROCS), 'cutter': [0, 1, 2, 3]},
         canaries=[('data-queue-never-flushed', _canary_queue_not_flushed), ('connecting-coc-not-aborted', _canary_coc_connecting_not_aborted),
                   ('smp-session-never-removed', _canary_session_kept)],
         bounds='24 procedures (incl. the central acting as GATT server, and a pairing whose passkey prompt stays open; GATT discover/read/write/subscribe/indicate/notify/MTU, pairing from either side, LE CoC connect/refused/disconnect/drain, RSSI, parameter update, encrypt) x 4 cuts (local disconnect, peer disconnect, link loss, transport loss) x every callback boundary k of the procedure: all awaited calls end; connection tables of host, device and controller, GATT server registries, SMP sessions, L2CAP channel and request tables, ACL queue are empty')
def system_cut(k: int, proc: str, cutter: int) -> bool:
    k = C(k, 0, 130)
    if k > KMAX[proc]:
        return True
    with untraced():
        r = cut_run(proc, cutter, k)
        if r is None:
            return True
        return not r


@harness(pre=['0 <= cutter <= 3'], family='system-cut', kernels=K, timeout=(240, 900), grid={'proc': list(PROCS)},
         bounds='the step bound KMAX of each procedure really exceeds its undisturbed length (otherwise late cut points would be silently skipped)')
def step_bound_is_enough(cutter: int, proc: str) -> bool:
    cutter = C(cutter, 0, 3)
    with untraced():
        return cut_run(proc, cutter, KMAX[proc] + 1) is None


# ------------------------------------------------------------------------------------------ L2CAP level
PSM = 0x1001


def _wire_proc(loop, w, proc):
    """start the procedure; returns the awaited tasks"""
    a, b = w.mgr
    ca = w.conns[0][1]
    if proc in ('classic_connect', 'classic_connect_ertm', 'classic_disconnect'):
        mode = l2cap.TransmissionMode.ENHANCED_RETRANSMISSION if proc == 'classic_connect_ertm' else l2cap.TransmissionMode.BASIC
        b.create_classic_server(l2cap.ClassicChannelSpec(psm=PSM, mode=mode), handler=lambda ch: None)
        t = loop.create_task(a.create_classic_channel(ca, l2cap.ClassicChannelSpec(psm=PSM, mode=mode)))
        if proc == 'classic_disconnect':
            w.pump(loop)
            return [loop.create_task(t.result().disconnect())]
        return [t]
    if proc in ('coc_connect', 'coc_disconnect'):
        b.create_le_credit_based_server(l2cap.LeCreditBasedChannelSpec(psm=0x81), handler=lambda ch: None)
        t = loop.create_task(a.create_le_credit_based_channel(ca, l2cap.LeCreditBasedChannelSpec(psm=0x81)))
        if proc == 'coc_disconnect':
            w.pump(loop)
            return [loop.create_task(t.result().disconnect())]
        return [t]
    if proc == 'enhanced_connect':
        b.create_le_credit_based_server(l2cap.LeCreditBasedChannelSpec(psm=0x81), handler=lambda ch: None)
        return [loop.create_task(a.create_enhanced_credit_based_channels(ca, l2cap.LeCreditBasedChannelSpec(psm=0x81), 2))]
    if proc == 'classic_connect_refused':
        return [loop.create_task(a.create_classic_channel(ca, l2cap.ClassicChannelSpec(psm=PSM)))]
    raise KeyError(proc)


def _wire_cut(proc, k):
    with detloop.running() as loop:
        w = Wire()
        tasks = _wire_proc(loop, w, proc)
        loop.run_ready()
        n = 0
        while n < k and w.q:
            w.deliver_one(loop)
            n += 1
        if n < k:
            return None
        w.link_down(loop, 1)
        if not _settle(loop, 2000):
            return ['no quiescence']
        bad = [f'awaited call {i} never ends' for i, t in enumerate(tasks) if not t.done()]
        for side in (0, 1):
            m = w.mgr[side]
            for nm in ('channels', 'le_coc_channels', 'pending_credit_based_connections'):
                if any(getattr(m, nm).values()):
                    bad.append(f'side {side} {nm}')
            if m.le_coc_requests:
                bad.append(f'side {side} le_coc_requests')
        return bad


WIRE_PROCS = ['classic_connect', 'classic_connect_ertm', 'classic_connect_refused', 'classic_disconnect', 'coc_connect', 'coc_disconnect', 'enhanced_connect']


@harness(pre=['0 <= k <= 16'], family='l2cap-cut', twin=True, kernels=K, timeout=(120, 400), grid={'proc': WIRE_PROCS},
         canaries=[('connecting-coc-not-aborted', _canary_coc_connecting_not_aborted)],
         bounds='two ChannelManagers on the wire: classic connect (basic, ERTM, refused) / disconnect, LE CoC connect / disconnect, enhanced CoC connect of two channels, link loss after each of the first k frames (k <= 16 > length of every procedure): the awaited call ends, channel and request tables on both sides are empty')
def l2cap_cut(k: int, proc: str) -> bool:
    k = C(k, 0, 16)
    with untraced():
        r = _wire_cut(proc, k)
        return r is None or not r


@harness(pre=['0 <= i <= 6'], family='l2cap-cut', kernels=K, timeout=(60, 200),
         bounds='every wire-level procedure is shorter than the 16-frame cut bound')
def l2cap_cut_bound_is_enough(i: int) -> bool:
    i = C(i, 0, 6)
    with untraced():
        return _wire_cut(WIRE_PROCS[i], 17) is None


# ------------------------------------------------------------------------------------------ profile transactions
def _profile_cut(proto, k):
    """a request of a BR/EDR profile is awaiting its answer over an L2CAP channel; after k frames have crossed,
    the channel closes (as it does when the link drops): the awaited call must end"""
    from vf.props.c19 import _SChan, _SConn, _sbc
    from bumble import avdtp, sdp, rfcomm
    with detloop.running() as loop:
        ca, cb = _SChan(loop), _SChan(loop)
        ca.peer, cb.peer = cb, ca
        if proto == 'avdtp_discover':
            pa, pb = avdtp.Protocol(ca), avdtp.Protocol(cb)
            ca.connection, cb.connection = _SConn(loop, lambda: pb), _SConn(loop, lambda: pa)
            pb.add_sink(_sbc(True))
            t = loop.create_task(pa.discover_remote_endpoints())
        elif proto == 'avdtp_silent_peer':
            pa = avdtp.Protocol(ca)
            cb.sink = lambda pdu: None
            t = loop.create_task(pa.get_capabilities(1))
        elif proto == 'sdp_search':
            class Conn:
                async def create_l2cap_channel(self, spec):
                    return ca
            client = sdp.Client(Conn())
            cb.sink = lambda pdu: None
            loop.create_task(client.connect())
            loop.run_ready()
            t = loop.create_task(client.search_services([sdp.core.UUID.from_16_bits(0x1101)]))
        elif proto == 'rfcomm_connect':
            mux = rfcomm.Multiplexer(ca, rfcomm.Multiplexer.Role.INITIATOR)
            cb.sink = lambda pdu: None
            t = loop.create_task(mux.connect())
        elif proto == 'rfcomm_open_dlc':
            mux = rfcomm.Multiplexer(ca, rfcomm.Multiplexer.Role.INITIATOR)
            peer = rfcomm.Multiplexer(cb, rfcomm.Multiplexer.Role.RESPONDER)
            t0 = loop.create_task(mux.connect())
            _settle(loop, 200)
            assert t0.done() and t0.exception() is None
            cb.sink = lambda pdu: None          # the peer stops answering
            t = loop.create_task(mux.open_dlc(3))
        else:
            raise KeyError(proto)
        n = 0
        while n < k and loop.ready:
            _step(loop)
            n += 1
        if n < k:
            return None
        ca.emit('close')
        cb.emit('close')
        if not _settle(loop, 2000):
            return ['no quiescence']
        return [] if t.done() else ['awaited call never ends']


PROFILE_PROCS = ['avdtp_discover', 'avdtp_silent_peer', 'sdp_search', 'rfcomm_connect', 'rfcomm_open_dlc']


def _canary_avdtp_waiters_kept():
    from bumble import avdtp
    avdtp.Protocol.on_l2cap_channel_close = lambda self: self.emit(self.EVENT_CLOSE)


@harness(pre=['1 <= k <= 12'], family='profile-cut', twin=True, kernels=('bumble.avdtp.Protocol.on_l2cap_channel_close', 'bumble.avdtp.Protocol.send_command', 'bumble.sdp.Client.send_request',
                                                                         'bumble.sdp.Client.on_channel_close', 'bumble.rfcomm.Multiplexer.on_l2cap_channel_close', 'bumble.rfcomm.Multiplexer.connect', 'bumble.rfcomm.Multiplexer.open_dlc'),
         timeout=(90, 300), grid={'proto': PROFILE_PROCS}, canaries=[('avdtp-transactions-not-released', _canary_avdtp_waiters_kept)],
         bounds='AVDTP discovery (answering and silent peer), SDP service search, RFCOMM multiplexer connect and DLC open over stub L2CAP channels: the channel closes after each of the first k loop callbacks (1 <= k <= 12 covers the whole exchange; k = 0 would start the request on an already closed channel, which is outside): the awaited request ends with a result, an error or a cancellation')
def profile_cut(k: int, proto: str) -> bool:
    k = C(k, 1, 12)
    with untraced():
        r = _profile_cut(proto, k)
        return r is None or not r


# ------------------------------------------------------------------------------------------ waiters released by channel-level events
def _channel_waiters(kind):
    with detloop.running() as loop:
        w = Wire(handles=(1, 2))
        a, b = w.mgr
        if kind == 'classic_crossing_disconnect':
            got = []
            b.create_classic_server(l2cap.ClassicChannelSpec(psm=PSM), handler=got.append)
            t = loop.create_task(a.create_classic_channel(w.conns[0][1], l2cap.ClassicChannelSpec(psm=PSM)))
            w.pump(loop)
            ca, cb = t.result(), got[0]
            ts = [loop.create_task(ca.disconnect()), loop.create_task(cb.disconnect())]      # both requests are on the wire before either arrives
            w.pump(loop)
            _settle(loop, 500)
            return [f'disconnect() {i} never ends' for i, x in enumerate(ts) if not x.done()] + (['channel tables not empty'] if any(a.channels.values()) or any(b.channels.values()) else [])
        if kind == 'coc_drain_peer_closes':
            got = []
            b.create_le_credit_based_server(l2cap.LeCreditBasedChannelSpec(psm=0x81, max_credits=1), handler=got.append)
            t = loop.create_task(a.create_le_credit_based_channel(w.conns[0][1], l2cap.LeCreditBasedChannelSpec(psm=0x81)))
            w.pump(loop)
            ca, cb = t.result(), got[0]
            cb.sink = lambda sdu: None
            ca.write(bytes(600))                   # more than the peer's credits allow: output stays queued
            td = loop.create_task(ca.drain())
            loop.run_ready()
            tc = loop.create_task(cb.disconnect())
            w.pump(loop)
            _settle(loop, 500)
            return [n for n, x in (('drain() never ends', td), ('disconnect() never ends', tc)) if not x.done()]
        if kind == 'coc_drain_local_disconnect':
            got = []
            b.create_le_credit_based_server(l2cap.LeCreditBasedChannelSpec(psm=0x81, max_credits=1), handler=got.append)
            t = loop.create_task(a.create_le_credit_based_channel(w.conns[0][1], l2cap.LeCreditBasedChannelSpec(psm=0x81)))
            w.pump(loop)
            ca = t.result()
            got[0].sink = lambda sdu: None
            ca.write(bytes(600))
            td = loop.create_task(ca.drain())
            loop.run_ready()
            tc = loop.create_task(ca.disconnect())
            w.pump(loop)
            _settle(loop, 500)
            return [n for n, x in (('drain() never ends', td), ('disconnect() never ends', tc)) if not x.done()]
        if kind == 'parameter_update_link_loss':
            t1 = loop.create_task(b.update_connection_parameters(w.conns[1][1], 10, 20, 0, 100))
            loop.run_ready()
            w.q.clear()                            # the request is lost with the link
            w.link_down(loop, 1)
            _settle(loop, 500)
            bad = [] if t1.done() else ['update_connection_parameters() never ends']
            # the other link can still ask
            a.on_l2cap_connection_parameter_update_request = lambda conn, cid, req: a.send_control_frame(conn, cid, l2cap.L2CAP_Connection_Parameter_Update_Response(identifier=req.identifier, result=0))
            try:
                t2 = loop.create_task(b.update_connection_parameters(w.conns[1][2], 10, 20, 0, 100))
                w.pump(loop)
                _settle(loop, 500)
                if not t2.done() or t2.exception() is not None:
                    bad.append('a request on another link is refused or never ends')
            except Exception as e:
                bad.append(f'a request on another link raised {type(e).__name__}')
            return bad
        raise KeyError(kind)


WAITER_KINDS = ['classic_crossing_disconnect', 'coc_drain_peer_closes', 'parameter_update_link_loss', 'coc_drain_local_disconnect']


@harness(pre=['0 <= i <= 3'], family='l2cap-cut', twin=True, kernels=K + ('bumble.l2cap.ClassicChannel.on_disconnection_request', 'bumble.l2cap.LeCreditBasedChannel.on_disconnection_request',
                                                                          'bumble.l2cap.ChannelManager.update_connection_parameters'), timeout=(60, 200),
         bounds='four waiters released by channel-level events: both ends of a classic channel call disconnect() at the same time (crossing requests); drain() on an LE CoC channel whose peer closes it, or that is closed locally; an L2CAP connection-parameter-update request whose link drops (and a later request on another link)')
def channel_level_waiters(i: int) -> bool:
    i = C(i, 0, 3)
    with untraced():
        return not _channel_waiters(WAITER_KINDS[i])


@harness(pre=['1 <= mask <= 7'], family='l2cap-cut', twin=True, kernels=('bumble.host.Host.on_transport_lost', 'bumble.host.Host.on_hci_disconnection_complete_event'), timeout=(60, 200),
         bounds='a Host holding any non-empty subset of {an ACL connection, a CIS link, a SCO link} (symbolic) loses its transport: every one of them is reported disconnected exactly once to the host\'s listeners, all three link tables end empty, and a flush is announced')
def host_transport_lost_closes_every_kind_of_link(mask: int) -> bool:
    mask = C(mask, 1, 7)
    with detloop.running() as loop:
        with untraced():
            h = bhost.Host()
            h.ready = True
            want = []
            if mask & 1:
                h.connections[0x0001] = object()
                want.append(0x0001)
            if mask & 2:
                h.cis_links[0x0010] = object()
                want.append(0x0010)
            if mask & 4:
                h.sco_links[0x0020] = object()
                want.append(0x0020)
            seen, flushed = [], []
            h.on('disconnection', lambda handle, reason: seen.append(handle))
            h.on('flush', lambda: flushed.append(1))
            h.on_transport_lost()
            loop.run_ready()
            return sorted(seen) == sorted(want) and not h.connections and not h.cis_links and not h.sco_links and flushed == [1]
