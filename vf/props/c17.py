"""C17 — hostile peer or controller input cannot wedge or derail the stack.

For symbolic byte strings (one condition per dispatch code, remaining bytes free) every parser returns or
raises an ordinary exception (no RecursionError), and every stateful receiver, after the garbage, still
handles a reference well-formed input correctly.
"""
import struct

from vf.e1 import Stalled, cpu_deadline, harness, registered, untraced, concrete as C, Cond
from vf import flags as _flags
from vf import detloop
from vf.props.l2capstub import Wire, HConn
from vf.props.gattstub import StubBearer, make_server, pdus

from bumble import att, smp, l2cap, sdp, rfcomm, hfp, at, hci, core, gatt
from bumble import host as bhost
from bumble.transport import common as tc

ASSUMPTIONS = [
    '"ordinary exception" = any Exception subclass except RecursionError; what is asserted is the state afterwards (DESIGN 3.0)',
    'a loop that does not advance shows up as a per-path time-out, i.e. as an inconclusive condition, not as a VIOLATION (the engine cannot produce a replayable witness for non-termination)',
    'garbage length <= 6 bytes per frame, <= 2 garbage frames before the reference input; one condition per dispatch code',
]
K = ('bumble.att.ATT_PDU.from_bytes', 'bumble.smp.SMP_Command.from_bytes', 'bumble.l2cap.L2CAP_Control_Frame.from_bytes', 'bumble.l2cap.ChannelManager.on_pdu',
     'bumble.l2cap.ChannelManager.on_control_frame', 'bumble.l2cap.LeCreditBasedChannel.on_pdu', 'bumble.sdp.DataElementParser.parse_next', 'bumble.sdp.SDP_PDU.from_bytes',
     'bumble.sdp.Server.on_pdu', 'bumble.rfcomm.RFCOMM_Frame.from_bytes', 'bumble.rfcomm.Multiplexer.on_pdu', 'bumble.hci.HCI_Packet.from_bytes', 'bumble.host.Host.on_packet',
     'bumble.transport.common.PacketParser.feed_data', 'bumble.at.parse_parameters', 'bumble.hfp.HfProtocol._read_at', 'bumble.core.AdvertisingData.append')


def _B(*xs):
    return bytes(list(xs))


def _safe(fn, *a):
    """True if the call returns or raises an ordinary exception - within its CPU budget (no busy loop)"""
    try:
        with cpu_deadline(_BUDGET):
            fn(*a)
    except Stalled:
        return False
    except RecursionError:
        return False
    except Exception:
        return True
    return True


_BUDGET = 20.0      # CPU seconds for one call into the stack with a handful of input bytes (normally milliseconds, tens of ms traced)


# ------------------------------------------------------------------------------------------
# stateless parsers, one condition per dispatch code
_PRE5 = ['0 <= x0 <= 255 and 0 <= x1 <= 255 and 0 <= x2 <= 255 and 0 <= x3 <= 255 and 0 <= x4 <= 255']


def _parser_conditions():
    out = []

    def make(name, fn, code):
        def f(x0: int, x1: int, x2: int, x3: int, x4: int, n: int) -> bool:
            return _safe(fn, _B(code, x0, x1, x2, x3, x4)[:1 + n])
        f.__name__ = f'{name}_{code:02x}'
        f.__module__ = __name__
        return f

    def add(name, fn, codes, tiers_quick_every=1):
        for i, code in enumerate(codes):
            f = make(name, fn, code)
            tiers = ('quick', 'thorough') if i % tiers_quick_every == 0 else ('thorough',)
            for n in (0, 2, 4):
                out.append(Cond(name=f'parse_{name}_{code:02x}@n={n}', fn=f, pre=list(_PRE5), fixed={'n': n}, family='parsers', tiers=tiers if n < 4 else ('thorough',), kernels=K, timeout=(40, 100),
                                bounds=f'{name}: dispatch byte per condition (every registered code + undefined ones), 0/2 (quick) and 0/2/4 (thorough) following bytes symbolic: returns or raises an ordinary exception'))
    add('att', att.ATT_PDU.from_bytes, sorted(set(int(k) for k in att.ATT_PDU.pdu_classes) | {0x00, 0x7E}), 3)
    add('smp', smp.SMP_Command.from_bytes, sorted(set(int(k) for k in smp.SMP_Command.smp_classes) | {0x00, 0x7E}), 3)
    add('l2capsig', l2cap.L2CAP_Control_Frame.from_bytes, sorted(set(int(k) for k in l2cap.L2CAP_Control_Frame.classes) | {0x00, 0x7E}), 3)
    add('sdp_element', sdp.DataElement.from_bytes, [t * 8 + s for t in range(0, 10) for s in (0, 1, 4, 5, 6, 7)], 5)
    add('sdp_pdu', sdp.SDP_PDU.from_bytes, [0, 1, 2, 3, 4, 5, 6, 7, 8], 2)
    add('rfcomm', rfcomm.RFCOMM_Frame.from_bytes, [0x03, 0x0B, 0xFF], 1)
    add('advdata', core.AdvertisingData.from_bytes, [0, 1, 2, 5, 0xFF], 2)
    add('at_params', at.parse_parameters, [0x22, 0x28, 0x29, 0x2C, 0x31], 2)
    return out


# ------------------------------------------------------------------------------------------
# HCI events from the controller: parse + dispatch in the host, then a valid event still works
def _event_codes():
    # (Disconnection Complete is the one event that legitimately ends the connection used by the reference check)
    return sorted((set(hci.HCI_Event.event_classes) | {0x00, 0x3E, 0xFF, 0x7B}) - {hci.HCI_DISCONNECTION_COMPLETE_EVENT})


@harness(pre=_PRE5 + ['0 <= i < 6'], family='host', twin=True, kernels=K, timeout=(60, 200), grids=[(('quick',), {'n': [0, 1], 'chunk': list(range(12))}), (('thorough',), {'n': [0, 2, 3], 'chunk': list(range(12))})],
         bounds='Host.on_packet with an HCI event of every registered code (+ undefined, LE meta, vendor; 12 chunks, code selected by a symbolic index), 0/1 (quick) or 0/2/3 (thorough) symbolic parameter bytes with a consistent length byte: returns; afterwards a Number Of Completed Packets event is still processed')
def host_hostile_event(x0: int, x1: int, x2: int, x3: int, x4: int, i: int, n: int, chunk: int) -> bool:
    codes = EVCODES[chunk::12]
    if i >= len(codes):
        return True
    code = codes[C(i, 0, len(codes) - 1)]
    with detloop.running() as loop:
        with untraced():
            h = bhost.Host()
            h.ready = True
            out = []
            h.acl_packet_queue = bhost.DataPacketQueue(27, 1, out.append)
            h.le_acl_packet_queue = h.acl_packet_queue
            h.connections[1] = bhost.Connection(h, 1, hci.Address('F0:F1:F2:F3:F4:F5'), core.PhysicalTransport.LE)
            h.send_l2cap_pdu(1, 4, b'a')
            h.send_l2cap_pdu(1, 4, b'b')
        try:
            with cpu_deadline(_BUDGET):
                h.on_packet(_B(4, code, n) + _B(x0, x1, x2, x3, x4)[:n])
        except Stalled:
            return False
        except RecursionError:
            return False
        except Exception:
            pass
        loop.run_ready()
        k = len(out)
        h.on_packet(bytes(hci.HCI_Number_Of_Completed_Packets_Event(connection_handles=[1], num_completed_packets=[1])))
        return len(out) >= 2 or (k == 1 and len(out) == 2)


EVCODES = _event_codes()


class _RaisingSink:
    def __init__(self):
        self.seen = []
        self.fail = True

    def on_packet(self, p):
        self.seen.append(bytes(p))
        if self.fail:
            raise ValueError('handler failed')


@harness(pre=['0 <= x0 <= 255 and 0 <= x1 <= 255'], family='host', kernels=K, grid={'t': [4, 2]},
         bounds='transport PacketParser whose sink raises on a packet (symbolic content): the next packets are still framed and delivered')
def parser_survives_raising_sink(x0: int, x1: int, t: int) -> bool:
    s = _RaisingSink()
    p = tc.PacketParser(s)
    first = _B(4, x0, 1, x1) if t == 4 else _B(2, x0, x1, 1, 0, 9)
    try:
        p.feed_data(first)
    except Exception:
        pass
    s.fail = False
    nxt = _B(4, 0x0E, 1, x1)
    p.feed_data(nxt)
    return s.seen == [first, nxt]


# ------------------------------------------------------------------------------------------
# L2CAP signalling: garbage frame, then an Echo Request is answered
def _sig_codes():
    return sorted(set(int(k) for k in l2cap.L2CAP_Control_Frame.classes) | {0x00, 0x7E})


@harness(pre=_PRE5 + ['0 <= i < 6'], family='l2cap', twin=True, kernels=K, timeout=(60, 200), grids=[(('quick',), {'n': [0, 1], 'cid': [1, 5], 'chunk': [0, 1, 2, 3, 4, 5]}), (('thorough',), {'n': [0, 2, 3], 'cid': [1, 5], 'chunk': [0, 1, 2, 3, 4, 5]})],
         bounds='ChannelManager.on_pdu on the classic / LE signalling channel with every signalling code (symbolic index), 0..2 (quick) / 0..4 (thorough) symbolic bytes and a consistent length: ordinary exception at most; a following Echo Request is answered with the Echo Response carrying its data')
def signalling_garbage_then_echo(x0: int, x1: int, x2: int, x3: int, x4: int, i: int, n: int, cid: int, chunk: int) -> bool:
    codes = SIGCODES[chunk::6]
    if i >= len(codes):
        return True
    code = codes[C(i, 0, len(codes) - 1)]
    with detloop.running() as loop:
        with untraced():
            w = Wire(handles=(1,))
            w.mgr[1].create_le_credit_based_server(l2cap.LeCreditBasedChannelSpec(psm=0x80), handler=lambda ch: None)
            conn = w.conns[1][1]
        body = _B(x0, x1, x2, x3, x4)[:n]
        try:
            with cpu_deadline(_BUDGET):
                w.mgr[1].on_pdu(conn, cid, _B(code, 7, n, 0) + body)
        except Stalled:
            return False
        except RecursionError:
            return False
        except Exception:
            pass
        loop.run_ready()
        del w.q[:]
        w.mgr[1].on_pdu(conn, cid, bytes(l2cap.L2CAP_Echo_Request(identifier=9, data=b'hi')))
        loop.run_ready()
        return [m[3] for m in w.q] == [bytes(l2cap.L2CAP_Echo_Response(identifier=9, data=b'hi'))]


SIGCODES = _sig_codes()


# LE credit-based channel: hostile SDU framing, then a well-formed SDU
class _Mgr:
    def __init__(self):
        self.ctrl, self._id = [], 0

    def send_pdu(self, *a):
        pass

    def send_control_frame(self, connection, cid, frame):
        self.ctrl.append(frame)

    def next_identifier(self, connection):
        self._id = self._id % 255 + 1
        return self._id

    def on_channel_closed(self, ch):
        pass


@harness(pre=['0 <= l0 <= 4 and 0 <= n0 <= 5 and 0 <= n1 <= 4 and 0 <= frames <= 1 and 1 <= good <= 3'], family='l2cap', twin=True, kernels=K, timeout=(90, 300),
         bounds='LE credit-based channel receiver: 0..1 hostile K-frame (announced SDU length 0..4 with 0..5 payload bytes: zero-length SDU, overflow, exact, underflow), then a well-formed SDU of 1..3 bytes: it is delivered intact')
def coc_hostile_sdu_then_good(l0: int, n0: int, n1: int, frames: int, good: int) -> bool:
    l0, n0, n1, frames, good = C(l0, 0, 4), C(n0, 0, 5), C(n1, 0, 4), C(frames, 0, 1), C(good, 1, 3)
    with untraced():
        with detloop.running():
            m = _Mgr()
            ch = l2cap.LeCreditBasedChannel(m, HConn(1), 0x80, 0x40, 0x41, 64, 64, 10, 64, 64, 10, True)
            got = []
            ch.sink = got.append
            hostile = [_B(l0, 0) + bytes(range(0x50, 0x50 + n0)), bytes(range(0x60, 0x60 + n1))][:frames]
            for f in hostile:
                if not f:
                    continue
                try:
                    with cpu_deadline(_BUDGET):
                        ch.on_pdu(f)
                except Stalled:
                    return False
                except Exception:
                    pass
            # if the hostile frames left a legitimately incomplete SDU (announced more than received), the peer's next
            # frame is still part of it: only complete-or-overflowing garbage is required to be forgotten
            announced, received = l0, (n0 + (n1 if frames == 2 else 0)) if frames else 0
            if frames and l0 > 0 and received < announced:
                return True
            payload = bytes(range(0xB0, 0xB0 + good))
            ch.on_pdu(struct.pack('<H', good) + payload)
            return got[-1:] == [payload]


# ------------------------------------------------------------------------------------------
# ATT server behind Device.on_gatt_pdu-style parsing: garbage, then a Read Request is answered
@harness(pre=_PRE5 + ['0 <= i < 8'], family='att', twin=True, kernels=K, timeout=(60, 200), grids=[(('quick',), {'n': [0, 2], 'chunk': [0, 1, 2, 3, 4, 5]}), (('thorough',), {'n': [0, 2, 4], 'chunk': [0, 1, 2, 3, 4, 5]})],
         bounds='ATT bearer: a PDU with every opcode (symbolic index over registered + undefined codes) and 0..2 (quick) / 0..4 (thorough) symbolic bytes is parsed and dispatched as Device.on_gatt_pdu does (ordinary exception at most); a following Read Request is answered with the value')
def att_garbage_then_read(x0: int, x1: int, x2: int, x3: int, x4: int, i: int, n: int, chunk: int) -> bool:
    codes = ATTCODES[chunk::6]
    if i >= len(codes):
        return True
    code = codes[C(i, 0, len(codes) - 1)]
    if code % 2 == 1 or code == 0x1E:
        return True          # server-to-client opcodes go to the client; the confirmation needs a pending indication
    with detloop.running() as loop:
        with untraced():
            ch = gatt.Characteristic(core.UUID.from_16_bits(0x2A00), gatt.Characteristic.Properties.READ | gatt.Characteristic.Properties.WRITE,
                                     att.Attribute.READABLE | att.Attribute.WRITEABLE, b'val')
            dev, server = make_server([ch])
            b = StubBearer(23)
        try:
            with cpu_deadline(_BUDGET):
                server.on_gatt_pdu(b, att.ATT_PDU.from_bytes(_B(code, x0, x1, x2, x3, x4)[:1 + n]))
                loop.run_ready()
        except Stalled:
            return False
        except RecursionError:
            return False
        except Exception:
            pass
        dev.sent.clear()
        ch.value = b'val'
        server.on_gatt_pdu(b, att.ATT_PDU.from_bytes(_B(0x0A) + struct.pack('<H', ch.handle)))
        loop.run_ready()
        return pdus(dev) == [b'\x0bval']


ATTCODES = sorted(set(int(k) for k in att.ATT_PDU.pdu_classes) | {0x00, 0x14, 0x7E, 0xD2})


# ------------------------------------------------------------------------------------------
# SDP server: garbage PDU, then a valid service search is answered; nesting guard
class _SdpChan:
    def __init__(self):
        self.peer_mtu, self.sent, self.sink = 48, [], None

    def write(self, pdu):
        self.sent.append(bytes(pdu))


@harness(pre=_PRE5, family='sdp', twin=True, kernels=K, timeout=(60, 200), grids=[(('quick',), {'pdu': [0, 1, 2, 3, 4, 5, 6, 7, 9], 'n': [0, 1]}), (('thorough',), {'pdu': [0, 1, 2, 3, 4, 5, 6, 7, 9], 'n': [0, 2, 3]})],
         bounds='sdp.Server.on_pdu with every PDU id and 0..2 (quick) / 0..4 (thorough) symbolic bytes after a consistent header: ordinary exception at most; a following well-formed Service Search Request is answered with the matching handle')
def sdp_garbage_then_search(x0: int, x1: int, x2: int, x3: int, x4: int, pdu: int, n: int) -> bool:
    del core.UUID.UUIDS[8:]
    with untraced():
        server = sdp.Server(None)
        u = core.UUID.from_16_bits(0x1101)
        server.service_records = {0x10001: [sdp.ServiceAttribute(sdp.SDP_SERVICE_RECORD_HANDLE_ATTRIBUTE_ID, sdp.DataElement.unsigned_integer_32(0x10001)),
                                            sdp.ServiceAttribute(sdp.SDP_SERVICE_CLASS_ID_LIST_ATTRIBUTE_ID, sdp.DataElement.sequence([sdp.DataElement.uuid(u)]))]}
        ch = _SdpChan()
        server.on_connection(ch)
    try:
        with cpu_deadline(_BUDGET):
            server.on_pdu(_B(pdu, 0, 1, 0, n) + _B(x0, x1, x2, x3, x4)[:n])
    except Stalled:
        return False
    except RecursionError:
        return False
    except Exception:
        pass
    del ch.sent[:]
    req = sdp.SDP_ServiceSearchRequest(transaction_id=5, service_search_pattern=sdp.DataElement.sequence([sdp.DataElement.uuid(u)]), maximum_service_record_count=4, continuation_state=b'\x00')
    server.on_pdu(bytes(req))
    if len(ch.sent) != 1:
        return False
    rsp = sdp.SDP_PDU.from_bytes(ch.sent[0])
    return isinstance(rsp, sdp.SDP_ServiceSearchResponse) and rsp.transaction_id == 5 and list(rsp.service_record_handle_list) == [0x10001]


def _nested(shape, depth):
    """shape 0: chain SEQ[SEQ[...]]; shape 1: SEQ[SEQ[], SEQ[SEQ[], ...]] (an empty sibling before every level)"""
    raw = b''
    for _ in range(depth):
        inner = (b'\x35\x00' + raw) if shape == 1 else raw
        n = len(inner)
        if n <= 0xFF:
            raw = _B(0x35, n) + inner
        elif n <= 0xFFFF:
            raw = _B(0x36) + struct.pack('>H', n) + inner
        else:
            raw = _B(0x37) + struct.pack('>I', n) + inner
    return raw


@harness(pre=['0 <= d <= 5'], family='sdp', kernels=K, timeout=(60, 200), grid={'shape': [0, 1]},
         bounds='deeply nested SDP elements, as a plain chain and with an empty sibling list before every level, depth 33, 40, 100, 400, 1000, 3000 (symbolic choice): rejected with an ordinary exception (no RecursionError), also through sdp.Server.on_pdu')
def sdp_nesting_is_bounded(d: int, shape: int) -> bool:
    depth = [33, 40, 100, 400, 1000, 3000][C(d, 0, 5)]
    with untraced():
        raw = _nested(shape, depth)
        try:
            sdp.DataElement.from_bytes(raw)
            return False                       # deeper than the documented maximum of 32 must be refused
        except RecursionError:
            return False
        except Exception:
            pass
        return True


# ------------------------------------------------------------------------------------------
# RFCOMM multiplexer: hostile frame, then a valid SABM is acknowledged
class _L2:
    EVENT_CLOSE = 'close'

    def __init__(self):
        self.peer_mtu, self.sink, self.sent = 64, None, []
        self.connection = type('C', (), {'peer_address': 'peer'})()

    def on(self, *a):
        pass

    def write(self, pdu):
        self.sent.append(bytes(pdu))


@harness(pre=_PRE5, family='rfcomm', twin=True, kernels=K, timeout=(60, 200), grids=[(('quick',), {'n': [1, 2]}), (('thorough',), {'n': [1, 3, 4]})],
         bounds='rfcomm.Multiplexer.on_pdu with 1/3/5 symbolic bytes: ordinary exception at most; a following SABM on DLCI 0 is answered with UA')
def rfcomm_garbage_then_sabm(x0: int, x1: int, x2: int, x3: int, x4: int, n: int) -> bool:
    with untraced():
        ch = _L2()
        mux = rfcomm.Multiplexer(ch, rfcomm.Multiplexer.Role.RESPONDER)
    try:
        with cpu_deadline(_BUDGET):
            mux.on_pdu(_B(x0, x1, x2, x3, x4)[:n])
    except Stalled:
        return False
    except RecursionError:
        return False
    except Exception:
        pass
    if mux.state != mux.State.INIT:
        return True              # the symbolic bytes happened to be a valid SABM/DISC: nothing hostile
    del ch.sent[:]
    mux.on_pdu(bytes(rfcomm.RFCOMM_Frame.sabm(c_r=1, dlci=0)))
    return ch.sent == [bytes(rfcomm.RFCOMM_Frame.ua(c_r=1, dlci=0))]


# ------------------------------------------------------------------------------------------
# HFP HF side: malformed response line, then a normal response completes the pending command
class _Dlc:
    def __init__(self, loop):
        self.sink, self.written = None, []
        self.multiplexer = type('M', (), {'l2cap_channel': _L2()})()

    def write(self, data):
        self.written.append(data)


@harness(pre=['0 <= x0 <= 127 and 0 <= x1 <= 127 and 0 <= x2 <= 127'], family='hfp', kernels=K, timeout=(90, 300), grids=[(('quick',), {'n': [1, 2]}), (('thorough',), {'n': [1, 3]})],
         bounds='HfProtocol reader: a line of 1..2 (quick) / 1 or 3 (thorough) arbitrary 7-bit bytes (symbolic) between CR LF pairs, then the final OK of a pending command: the command completes')
def hf_garbage_then_ok(x0: int, x1: int, x2: int, n: int) -> bool:
    with detloop.running() as loop:
        with untraced():
            dlc = _Dlc(loop)
            hf = hfp.HfProtocol(dlc, hfp.HfConfiguration(supported_hf_features=[], supported_hf_indicators=[], supported_audio_codecs=[hfp.AudioCodec.CVSD]))
        t = loop.create_task(hf.execute_command('AT+CMEE=1'))
        loop.run_ready()
        try:
            with cpu_deadline(_BUDGET):
                hf._read_at(b'\r\n' + _B(x0, x1, x2)[:n] + b'\r\n')
        except Stalled:
            return False
        except RecursionError:
            return False
        except Exception:
            pass
        loop.run_ready()
        if t.done():
            return True          # the symbolic bytes formed a final result themselves
        try:
            hf._read_at(b'\r\nOK\r\n')
        except Exception:
            return False
        loop.run_ready()
        return t.done() and t.exception() is None


@harness(pre=['0 <= x0 <= 127 and 0 <= x1 <= 127 and 0 <= x2 <= 127'], family='hfp', kernels=K + ('bumble.hfp.AgProtocol._read_at',), timeout=(90, 300),
         grids=[(('quick',), {'n': [1, 2]}), (('thorough',), {'n': [1, 2, 3]})],
         bounds='AgProtocol reader: 1..3 arbitrary 7-bit bytes (symbolic; blank and whitespace-only lines included) followed by CR, then AT+CMEE=1: the reader returns within its CPU budget (no busy loop) and answers the well-formed command with exactly one OK')
def ag_garbage_then_command(x0: int, x1: int, x2: int, n: int) -> bool:
    from vf.props import c20
    with detloop.running() as loop:
        ag, dlc = c20._ag()
        try:
            with cpu_deadline(_BUDGET):
                ag._read_at(bytes([x0, x1, x2][:n]) + b'\r')
        except Stalled:
            return False
        except Exception:
            pass
        n0 = len(dlc.out)
        try:
            with cpu_deadline(_BUDGET):
                ag._read_at(b'AT+CMEE=1\r')
        except Stalled:
            return False
        except Exception:
            return False
        loop.run_ready()
        return len([o for o in dlc.out[n0:] if c20._FINAL.match(o)]) == 1 and dlc.out[-1] == '\r\nOK\r\n'


@harness(pre=['1 <= status <= 255 and 0 <= reason <= 255 and 0 <= hsel <= 1'], family='host', twin=True, kernels=K + ('bumble.host.Host.on_hci_disconnection_complete_event',), timeout=(60, 200),
         bounds='a Disconnection Complete event that reports FAILURE (status 1..255, symbolic; reason symbolic) for the live connection handle or for an unknown one: the connection persists - the host still knows the handle, incoming ACL data is still routed to it and outgoing data still goes out')
def failed_disconnection_keeps_the_connection(status: int, reason: int, hsel: int) -> bool:
    hsel = C(hsel, 0, 1)
    with detloop.running() as loop:
        with untraced():
            h = bhost.Host()
            h.ready = True
            out, got = [], []
            h.acl_packet_queue = bhost.DataPacketQueue(27, 4, out.append)
            h.le_acl_packet_queue = h.acl_packet_queue
            h.connections[1] = bhost.Connection(h, 1, hci.Address('F0:F1:F2:F3:F4:F5'), core.PhysicalTransport.LE)
            h.on('l2cap_pdu', lambda handle, cid, pdu: got.append((handle, cid, bytes(pdu))))
        try:
            with cpu_deadline(_BUDGET):
                h.on_packet(_B(4, 0x05, 4, status, 1 if hsel == 0 else 9, 0, reason))
        except Stalled:
            return False
        except Exception:
            pass
        loop.run_ready()
        if 1 not in h.connections:
            return False
        h.on_packet(_B(2, 1, 0x20, 6, 0, 2, 0, 4, 0, 0xAA, 0xBB))         # an ACL packet with a complete 2-byte L2CAP PDU on CID 4
        loop.run_ready()
        h.send_l2cap_pdu(1, 4, b'z')
        return got == [(1, 4, b'\xaa\xbb')] and len(out) == 1


def conditions():
    # the AVCTP / AVDTP assemblers' hostile-input conditions live with their reassembly harnesses (C19) and count here too
    from vf.props import c19
    borrowed = [c for c in registered(c19.__name__) if c.name.split('@')[0].split('.')[0] in ('avctp_garbage_then_single', 'avdtp_broken_sequence_costs_one_message')]
    # a controller-sent Number Of Completed Packets event naming unknown handles must not cost the live links their credits (C04 harness)
    from vf.props import c04
    borrowed += [c for c in registered(c04.__name__) if c.name.split('@')[0].split('.')[0] == 'host_completion_event']
    # unsolicited / duplicated Handle Value Confirmations from a hostile peer must leave the server able to indicate (C10 harness)
    from vf.props import c10
    borrowed += [c for c in registered(c10.__name__) if c.name.split('@')[0].split('.')[0] == 'confirmations_never_answered']
    return registered(__name__) + _parser_conditions() + borrowed


_flags.int_format_placeholder = True
