"""Two real l2cap.ChannelManagers joined by an order-preserving in-memory wire (stub Host on each side).
Shared by the C07, C08, C09, C16, C17 harnesses."""
import asyncio

from bumble import l2cap, hci


class HConn:
    """what ChannelManager needs from a device.Connection"""

    def __init__(self, handle, role=hci.Role.CENTRAL):
        self.handle = handle
        self.peer_address = 'peer'
        self.role = role
        self.waiters = []

    def cancel_on_disconnection(self, aw):
        # device.Connection: utils.cancel_on_event(self, EVENT_DISCONNECTION, aw)
        f = asyncio.ensure_future(aw)
        self.waiters.append(f)
        return f

    def disconnected(self):
        for f in self.waiters:
            if not f.done():
                f.cancel('abort: disconnection event occurred.')
        self.waiters = []

    def __repr__(self):
        return f'HConn({self.handle})'


class HostStub:
    def __init__(self, wire, side):
        self.wire, self.side, self.listeners = wire, side, {}

    def on(self, ev, fn):
        self.listeners.setdefault(ev, []).append(fn)

    def remove_listener(self, ev, fn):
        self.listeners[ev].remove(fn)

    def emit(self, ev, *a):
        for fn in list(self.listeners.get(ev, [])):
            fn(*a)

    def send_l2cap_pdu(self, handle, cid, pdu):
        self.wire.q.append((1 - self.side, handle, cid, bytes(pdu)))

    def send_acl_sdu(self, handle, sdu):
        p = l2cap.L2CAP_PDU.from_bytes(sdu)
        self.wire.q.append((1 - self.side, handle, p.cid, p.payload))


class Wire:
    """FIFO of (destination side, connection handle, cid, payload); `log` keeps everything that crossed"""

    def __init__(self, handles=(1,), features=(None, None)):
        self.q = []
        self.log = []
        # by default both managers advertise what a Device does (DeviceConfiguration.l2cap_extended_features)
        F = l2cap.L2CAP_Information_Request.ExtendedFeatures
        default = (F.FIXED_CHANNELS, F.FCS_OPTION, F.ENHANCED_RETRANSMISSION_MODE)
        self.mgr = [l2cap.ChannelManager(features[0] if features[0] is not None else default),
                    l2cap.ChannelManager(features[1] if features[1] is not None else default)]
        self.host = [HostStub(self, 0), HostStub(self, 1)]
        self.mgr[0].host = self.host[0]
        self.mgr[1].host = self.host[1]
        # per side, per handle: the connection object
        self.conns = [{h: HConn(h, hci.Role.CENTRAL) for h in handles}, {h: HConn(h, hci.Role.PERIPHERAL) for h in handles}]
        self.dead = set()

    def deliver_one(self, loop):
        side, handle, cid, pdu = self.q.pop(0)
        self.log.append((side, handle, cid, pdu))
        if handle in self.dead:
            return
        self.mgr[side].on_pdu(self.conns[side][handle], cid, pdu)
        loop.run_ready()

    def pump(self, loop, limit=400):
        n = 0
        loop.run_ready()
        while self.q and n < limit:
            self.deliver_one(loop)
            n += 1
        return n < limit

    def link_down(self, loop, handle):
        """both hosts report the disconnection of `handle`; anything still queued for it is lost"""
        self.dead.add(handle)
        self.q = [m for m in self.q if m[1] != handle]
        for side in (0, 1):
            # the manager hears the host event first, then the Device tells the Connection's own listeners
            self.host[side].emit('disconnection', handle, 0x13)
            self.conns[side][handle].disconnected()
        loop.run_ready()
