"""C18 — every protocol data unit above HCI round-trips through its codec.

Generated (vf/gencodec.py, from the registries of the current tree): ATT PDUs, SMP commands, L2CAP
signalling frames, AVDTP messages.  Hand-written: ERTM control fields, L2CAP PDU (+FCS), RFCOMM frames
and MCC, SDP data elements and PDUs, ATT read-multiple forms, AVDTP service capabilities, AVCTP frames,
RTP, advertising data, addresses, UUIDs (including the process-wide registry as history).
"""
import struct

from vf.e1 import harness, registered, untraced, concrete as C
from vf import flags as _flags
from vf import gencodec

from bumble import core, hci, l2cap, rfcomm, sdp, att, avdtp, avctp, rtp

ASSUMPTIONS = [
    'well-formed bytes = the layout prescribed by the class field table (length/count bytes consistent); canonical (minimal) SDP size descriptors',
    'RFCOMM MCC values <= 127 bytes (all defined multiplexer commands are shorter); RFCOMM information lengths {0,1,2,126,127,128,129} with symbolic edge bytes',
    'SDP sizes 255/256/65535/65536 use concrete-length buffers whose first/last bytes are symbolic',
    'UUID registry history: a bounded prelude (the equal value registered earlier in another width)',
]


def _B(*xs):
    return bytes(list(xs))


# ------------------------------------------------------------------------------------------
# ERTM control fields
K_ERTM = ('bumble.l2cap.InformationEnhancedControlField.from_bytes', 'bumble.l2cap.InformationEnhancedControlField.__bytes__',
          'bumble.l2cap.SupervisoryEnhancedControlField.from_bytes', 'bumble.l2cap.SupervisoryEnhancedControlField.__bytes__',
          'bumble.l2cap.EnhancedControlField.from_bytes')


@harness(pre=['0 <= tx <= 63 and 0 <= sar <= 3 and 0 <= req <= 63 and 0 <= final <= 1'], family='ertm', twin=True, kernels=K_ERTM,
         bounds='I-frame control field: all fields full range')
def ertm_i_fields(tx: int, sar: int, req: int, final: int) -> bool:
    f = l2cap.InformationEnhancedControlField(tx_seq=tx, sar=sar, req_seq=req, final=final)
    g = l2cap.EnhancedControlField.from_bytes(bytes(f))
    return type(g) is l2cap.InformationEnhancedControlField and (g.tx_seq, g.sar, g.req_seq, g.final) == (tx, sar, req, final) and bytes(g) == bytes(f)


@harness(pre=['0 <= sf <= 3 and 0 <= poll <= 1 and 0 <= req <= 63 and 0 <= final <= 1'], family='ertm', twin=True, kernels=K_ERTM,
         bounds='S-frame control field: all fields full range')
def ertm_s_fields(sf: int, poll: int, req: int, final: int) -> bool:
    f = l2cap.SupervisoryEnhancedControlField(supervision_function=sf, poll=poll, req_seq=req, final=final)
    g = l2cap.EnhancedControlField.from_bytes(bytes(f))
    return (type(g) is l2cap.SupervisoryEnhancedControlField and (g.supervision_function, g.poll, g.req_seq, g.final) == (sf, poll, req, final)
            and bytes(g) == bytes(f))


@harness(pre=['0 <= b0 <= 255 and 0 <= b1 <= 255'], family='ertm', kernels=K_ERTM,
         bounds='control field bytes: every 16-bit value whose reserved bits are zero (I: none; S: bits 1,5,6 of octet 0 and 6,7 of octet 1)')
def ertm_bytes(b0: int, b1: int) -> bool:
    if b0 % 2 == 1:
        # S-frame: bits 1, 5, 6 of the first octet and the two top bits of the second are reserved
        if (b0 // 2) % 2 or (b0 // 32) % 4 or b1 // 64:
            return True
    g = l2cap.EnhancedControlField.from_bytes(_B(b0, b1))
    return bytes(g) == _B(b0, b1)


# ------------------------------------------------------------------------------------------
# L2CAP basic PDU
@harness(pre=['0 <= cid <= 0xFFFF and 0 <= d0 <= 255 and 0 <= d1 <= 255'], family='l2cap-pdu', grid={'n': [0, 1, 2], 'fcs': [0]},
         kernels=('bumble.l2cap.L2CAP_PDU.from_bytes', 'bumble.l2cap.L2CAP_PDU.to_bytes'),
         bounds='L2CAP PDU: cid 16 bit, 0..2 payload bytes (FCS framing is exercised concretely under C08)')
def l2cap_pdu_rt(cid: int, d0: int, d1: int, n: int, fcs: int) -> bool:
    payload = _B(d0, d1)[:n]
    raw = l2cap.L2CAP_PDU(cid, payload).to_bytes(with_fcs=bool(fcs))
    q = l2cap.L2CAP_PDU.from_bytes(raw)
    if fcs:
        return q.cid == cid and q.payload[:-2] == payload and len(q.payload) == n + 2 and len(raw) == 4 + n + 2
    return q.cid == cid and q.payload == payload and bytes(q) == raw


# ------------------------------------------------------------------------------------------
# RFCOMM
K_RFCOMM = ('bumble.rfcomm.RFCOMM_Frame.__init__', 'bumble.rfcomm.RFCOMM_Frame.from_bytes', 'bumble.rfcomm.RFCOMM_Frame.__bytes__',
            'bumble.rfcomm.RFCOMM_Frame.uih', 'bumble.rfcomm.compute_fcs')
_FT = [rfcomm.FrameType.SABM, rfcomm.FrameType.UA, rfcomm.FrameType.DM, rfcomm.FrameType.DISC, rfcomm.FrameType.UIH]


def _info(n, e0, e1):
    """information field of length n: symbolic first and last byte, concrete middle"""
    if n == 0:
        return b''
    if n == 1:
        return _B(e0)
    return _B(e0) + bytes((i * 7 + 3) & 0xFF for i in range(n - 2)) + _B(e1)


@harness(pre=['0 <= dlci <= 63'], family='rfcomm', grid={'t': [0, 1, 2, 3], 'pf': [0, 1], 'cr': [0, 1]}, kernels=K_RFCOMM, timeout=(30, 90),
         bounds='RFCOMM control frames SABM/UA/DM/DISC: dlci, c/r, p/f full range')
def rfcomm_control_rt(dlci: int, cr: int, pf: int, t: int) -> bool:
    f = rfcomm.RFCOMM_Frame(_FT[t], cr, dlci, pf)
    raw = bytes(f)
    g = rfcomm.RFCOMM_Frame.from_bytes(raw)
    return (g.type, g.c_r, g.dlci, g.p_f, g.information) == (_FT[t], cr, dlci, pf, b'') and bytes(g) == raw


@harness(pre=['0 <= dlci <= 63 and 0 <= e0 <= 255 and 0 <= e1 <= 255 and 0 <= credits <= 255'], family='rfcomm', kernels=K_RFCOMM, timeout=(30, 90),
         grid={'n': [0, 1, 2, 126, 127, 128, 129], 'pf': [0, 1], 'cr': [1]},
         bounds='RFCOMM UIH: payload lengths 0,1,2,126,127,128,129 (1-/2-byte length indicator boundary) with (p/f=1) and without a credit byte; first/last payload bytes, credit byte, dlci, c/r symbolic')
def rfcomm_uih_rt(dlci: int, cr: int, e0: int, e1: int, credits: int, n: int, pf: int) -> bool:
    payload = _info(n, e0, e1)
    info = (_B(credits) if pf else b'') + payload
    f = rfcomm.RFCOMM_Frame.uih(c_r=cr, dlci=dlci, information=info, p_f=pf)
    raw = bytes(f)
    # the length indicator counts the payload only (TS 07.10 / RFCOMM 6.5.2), EA bit set iff one octet
    if n <= 127:
        if raw[2] != n * 2 + 1:
            return False
    elif raw[2] != (n % 128) * 2 or raw[3] != n // 128:
        return False
    g = rfcomm.RFCOMM_Frame.from_bytes(raw)
    return (g.type, g.c_r, g.dlci, g.p_f, g.information) == (rfcomm.FrameType.UIH, cr, dlci, pf, info) and bytes(g) == raw


@harness(pre=['0 <= t <= 63 and 0 <= cr <= 1 and 0 <= d0 <= 255 and 0 <= d1 <= 255'], family='rfcomm', grid={'n': [0, 1, 2, 8, 127, 128, 129, 300]},
         kernels=('bumble.rfcomm.RFCOMM_Frame.make_mcc', 'bumble.rfcomm.RFCOMM_Frame.parse_mcc'),
         bounds='RFCOMM MCC: type 6 bit, c/r, value lengths 0,1,2,8,127 and 128,129,300 (two-octet length indicator) with symbolic edge bytes: value and type survive, the length octets are the TS 07.10 encoding')
def rfcomm_mcc_rt(t: int, cr: int, d0: int, d1: int, n: int) -> bool:
    value = _info(n, d0, d1)
    raw = rfcomm.RFCOMM_Frame.make_mcc(t, cr, value)
    t2, cr2, v2 = rfcomm.RFCOMM_Frame.parse_mcc(raw)
    if n < 128:
        enc_ok = raw[1] == n * 2 + 1 and len(raw) == 2 + n
    else:
        enc_ok = raw[1] == (n % 128) * 2 and raw[2] == n // 128 and len(raw) == 3 + n
    return t2 == t and int(cr2) == cr and v2 == value and enc_ok


@harness(pre=['0 <= x0 <= 255 and 0 <= x1 <= 255 and 0 <= x2 <= 255 and 0 <= n <= 3'], family='unknown-codes', twin=True, grid={'proto': ['smp', 'att', 'l2capsig']},
         kernels=('bumble.smp.SMP_Command.from_bytes', 'bumble.att.ATT_PDU.from_bytes', 'bumble.l2cap.L2CAP_Control_Frame.from_bytes'),
         bounds='a PDU whose code byte has no registered class (SMP 0x7E / ATT 0x7E / L2CAP signalling 0x7E), 0..3 symbolic parameter bytes (L2CAP: consistent length field): bytes -> generic object -> bytes is the identity')
def unknown_code_rt(x0: int, x1: int, x2: int, n: int, proto: str) -> bool:
    from bumble import smp as _smp, att as _att, l2cap as _l2
    n = C(n, 0, 3)
    body = _B(x0, x1, x2)[:n]
    if proto == 'smp':
        raw = bytes([0x7E]) + body
        return bytes(_smp.SMP_Command.from_bytes(raw)) == raw
    if proto == 'att':
        raw = bytes([0x7E]) + body
        return bytes(_att.ATT_PDU.from_bytes(raw)) == raw
    raw = bytes([0x7E, 9, n, 0]) + body
    return bytes(_l2.L2CAP_Control_Frame.from_bytes(raw)) == raw


@harness(pre=['0 <= x0 <= 255 and 0 <= x1 <= 255 and 0 <= x2 <= 255 and 0 <= x3 <= 255 and 0 <= x4 <= 255 and 0 <= x5 <= 255 and 0 <= x6 <= 255 and 0 <= x7 <= 7'],
         family='rfcomm', kernels=('bumble.rfcomm.RFCOMM_MCC_PN.from_bytes', 'bumble.rfcomm.RFCOMM_MCC_PN.__bytes__'),
         bounds='MCC PN: all 8 octets symbolic (credits 3 bits)')
def rfcomm_pn_rt(x0: int, x1: int, x2: int, x3: int, x4: int, x5: int, x6: int, x7: int) -> bool:
    raw = _B(x0, x1, x2, x3, x4, x5, x6, x7)
    pn = rfcomm.RFCOMM_MCC_PN.from_bytes(raw)
    pn2 = rfcomm.RFCOMM_MCC_PN(dlci=pn.dlci, cl=pn.cl, priority=pn.priority, ack_timer=pn.ack_timer, max_frame_size=pn.max_frame_size,
                               max_retransmissions=pn.max_retransmissions, initial_credits=pn.initial_credits)
    return bytes(pn) == raw and bytes(pn2) == raw and pn.max_frame_size == x4 + 256 * x5 and rfcomm.RFCOMM_MCC_PN.from_bytes(bytes(pn2)) == pn


@harness(pre=['0 <= dlci <= 63 and 0 <= fc <= 1 and 0 <= rtc <= 1 and 0 <= rtr <= 1 and 0 <= ic <= 1 and 0 <= dv <= 1'], family='rfcomm',
         kernels=('bumble.rfcomm.RFCOMM_MCC_MSC.from_bytes', 'bumble.rfcomm.RFCOMM_MCC_MSC.__bytes__'), bounds='MCC MSC: all fields')
def rfcomm_msc_rt(dlci: int, fc: int, rtc: int, rtr: int, ic: int, dv: int) -> bool:
    m = rfcomm.RFCOMM_MCC_MSC(dlci=dlci, fc=fc, rtc=rtc, rtr=rtr, ic=ic, dv=dv)
    m2 = rfcomm.RFCOMM_MCC_MSC.from_bytes(bytes(m))
    return m2 == m and bytes(m2) == bytes(m)


# ------------------------------------------------------------------------------------------
# SDP data elements
K_SDP = ('bumble.sdp.DataElement.__bytes__', 'bumble.sdp.DataElementParser.parse_next', 'bumble.sdp.DataElementParser._list_from_bytes',
         'bumble.sdp.DataElement.unsigned_integer_from_bytes', 'bumble.sdp.DataElement.signed_integer_from_bytes')


def _rebuild(e):
    """fresh element (no cached bytes) from the fields of a parsed one"""
    v = e.value
    if e.type in (sdp.DataElement.SEQUENCE, sdp.DataElement.ALTERNATIVE):
        v = [_rebuild(x) for x in v]
    return sdp.DataElement(e.type, v, e.value_size)


def _same(a, b):
    if a.type != b.type:
        return False
    if a.type in (sdp.DataElement.SEQUENCE, sdp.DataElement.ALTERNATIVE):
        return len(a.value) == len(b.value) and all(_same(x, y) for x, y in zip(a.value, b.value))
    if a.type == sdp.DataElement.UUID:
        return bytes(a.value) == bytes(b.value)
    return a.value == b.value and a.value_size == b.value_size


def _sdp_rt(raw):
    e = sdp.DataElement.from_bytes(raw)
    if bytes(e) != raw:
        return False
    f = _rebuild(e)
    b2 = bytes(f)
    if b2 != raw:
        return False
    return _same(sdp.DataElement.from_bytes(b2), e)


@harness(pre=['0 <= x0 <= 255 and 0 <= x1 <= 255 and 0 <= x2 <= 255 and 0 <= x3 <= 255 and 0 <= x4 <= 255 and 0 <= x5 <= 255 and 0 <= x6 <= 255 and 0 <= x7 <= 255'],
         family='sdp-element', grid={'t': [1, 2], 'si': [0, 1, 2, 3]}, kernels=K_SDP, twin=True,
         bounds='SDP unsigned/signed integers of 1/2/4/8 bytes, value bytes symbolic (8-byte form: the two outer byte pairs)')
def sdp_int_rt(x0: int, x1: int, x2: int, x3: int, x4: int, x5: int, x6: int, x7: int, t: int, si: int) -> bool:
    n = 1 << si
    raw = _B(t * 8 + si) + (_B(x0, x1, x2, x3, x4, x5, x6, x7)[:n] if n < 8 else _B(x0, x1, 0x5A, 0xA5, 0x33, 0xCC, x6, x7))
    return _sdp_rt(raw)


@harness(pre=['0 <= b <= 1'], family='sdp-element', kernels=K_SDP, bounds='SDP nil and boolean')
def sdp_nil_bool_rt(b: int) -> bool:
    return _sdp_rt(_B(0)) and _sdp_rt(_B(5 * 8, b))


@harness(pre=['0 <= x0 <= 255 and 0 <= x1 <= 255 and 0 <= x2 <= 255 and 0 <= x3 <= 255'], family='sdp-element', grid={'w': [2, 4, 16]}, kernels=K_SDP + ('bumble.core.UUID.from_bytes',),
         bounds='SDP UUID elements of 16/32/128 bits (first 4 bytes symbolic)')
def sdp_uuid_rt(x0: int, x1: int, x2: int, x3: int, w: int) -> bool:
    del core.UUID.UUIDS[8:]
    body = (_B(x0, x1, x2, x3) + bytes(range(0x30, 0x3C)))[:w]
    raw = _B(3 * 8 + {2: 1, 4: 2, 16: 4}[w]) + body
    return _sdp_rt(raw)


@harness(pre=['0 <= e0 <= 255 and 0 <= e1 <= 255'], family='sdp-element', kernels=K_SDP,
         grid={'t': [4], 'n': [0, 1, 255, 256, 65535, 65536]},
         bounds='SDP text string: lengths 0,1,255,256,65535,65536 (size descriptor boundaries), first/last byte symbolic')
def sdp_text_rt(e0: int, e1: int, t: int, n: int) -> bool:
    body = _info(n, e0, e1)
    if n <= 0xFF:
        head = _B(t * 8 + 5, n)
    elif n <= 0xFFFF:
        head = _B(t * 8 + 6) + struct.pack('>H', n)
    else:
        head = _B(t * 8 + 7) + struct.pack('>I', n)
    raw = head + body
    e = sdp.DataElement.from_bytes(raw)
    if bytes(e) != raw or e.value != body:
        return False
    f = sdp.DataElement(e.type, e.value)
    return bytes(f) == raw


@harness(pre=['32 <= c0 <= 126 and 32 <= c1 <= 126'], family='sdp-element', kernels=K_SDP, grid={'n': [0, 1, 2]},
         bounds='SDP URL of 0..2 ASCII characters')
def sdp_url_rt(c0: int, c1: int, n: int) -> bool:
    return _sdp_rt(_B(8 * 8 + 5, n) + _B(c0, c1)[:n])


@harness(pre=['0 <= x0 <= 255 and 0 <= x1 <= 255 and 0 <= x2 <= 255 and 0 <= x3 <= 255'], family='sdp-element', kernels=K_SDP,
         grid={'t': [6, 7], 'shape': [0, 1, 2, 3]},
         bounds='SDP sequence/alternative: empty, one uint8, (uint16, text(1)), nested sequence of depth 3; content bytes symbolic')
def sdp_seq_rt(x0: int, x1: int, x2: int, x3: int, t: int, shape: int) -> bool:
    if shape == 0:
        inner = b''
    elif shape == 1:
        inner = _B(0x08, x0)
    elif shape == 2:
        inner = _B(0x09, x0, x1) + _B(0x25, 1, x2)
    else:
        inner = _B(0x35, 7, 0x35, 5, 0x35, 3, 0x09, x0, x1)
    raw = _B(t * 8 + 5, len(inner)) + inner
    return _sdp_rt(raw)


@harness(pre=['0 <= x0 <= 255'], family='sdp-element', kernels=K_SDP, grid={'depth': [1, 31, 32]},
         bounds='SDP nesting depth 1, 31, 32 (the documented maximum) with a symbolic leaf')
def sdp_depth_rt(x0: int, depth: int) -> bool:
    raw = _B(0x08, x0)
    for _ in range(depth):
        n = len(raw)
        raw = (_B(0x35, n) if n <= 0xFF else _B(0x36) + struct.pack('>H', n)) + raw
    return _sdp_rt(raw)


# SDP PDUs
K_SDPPDU = ('bumble.sdp.SDP_PDU.from_bytes', 'bumble.sdp.SDP_PDU.__bytes__')


@harness(pre=['0 <= tid <= 0xFFFF and 0 <= x0 <= 255 and 0 <= x1 <= 255 and 0 <= x2 <= 255 and 0 <= x3 <= 255 and 0 <= c0 <= 255'], family='sdp-pdu', kernels=K_SDPPDU,
         grid={'pdu': [1, 2, 3, 4, 5, 6, 7], 'cont': [0, 1]}, twin=True,
         bounds='every SDP PDU id 1..7, transaction id 16 bit, symbolic field bytes, continuation state absent / 1 byte')
def sdp_pdu_rt(tid: int, x0: int, x1: int, x2: int, x3: int, c0: int, pdu: int, cont: int) -> bool:
    del core.UUID.UUIDS[8:]
    cs = _B(1, c0) if cont else _B(0)
    pattern = _B(0x35, 3, 0x19, x0, x1)             # sequence { uuid16 }
    ids = _B(0x35, 3, 0x09, x2, x3)                 # sequence { uint16 }
    if pdu == 1:
        params = _B(0, 3)                           # error code (enum-typed: concrete)
    elif pdu == 2:
        params = pattern + _B(x2, x3) + cs          # pattern, max count, continuation
    elif pdu == 3:
        params = _B(0, 1, 0, 1) + _B(x0, x1, x2, x3) + cs      # total, current, one handle
    elif pdu == 4:
        params = _B(x0, x1, x2, x3) + _B(0, 9) + ids + cs      # handle, max bytes, id list
    elif pdu == 5:
        params = _B(0, 2, x0, x1) + cs              # byte count, attribute list bytes
    elif pdu == 6:
        params = pattern + _B(x2, x3) + ids + cs
    else:
        params = _B(0, 2, x0, x1) + cs
    raw = _B(pdu) + struct.pack('>HH', tid, len(params)) + params
    p = sdp.SDP_PDU.from_bytes(raw)
    if p.pdu_id != pdu or p.transaction_id != tid or bytes(p) != raw:
        return False
    # rebuild from fields
    fields = {n: getattr(p, n) for n in gencodec.flat_names(type(p).fields)}
    p2 = type(p)(transaction_id=tid, **fields)
    return bytes(p2) == raw


# ------------------------------------------------------------------------------------------
# ATT read-multiple forms (list parsers outside the generator)
@harness(pre=['0 <= h0 <= 0xFFFF and 0 <= h1 <= 0xFFFF'], family='att-lists', grid={'op': [int(att.Opcode.ATT_READ_MULTIPLE_REQUEST), int(att.Opcode.ATT_READ_MULTIPLE_VARIABLE_REQUEST)], 'n': [1, 2]},
         kernels=('bumble.att.ATT_PDU.from_bytes', 'bumble.att.ATT_PDU.__bytes__'), bounds='ATT Read Multiple (Variable) Request with 1..2 symbolic handles')
def att_read_multiple_rt(h0: int, h1: int, op: int, n: int) -> bool:
    hs = [h0, h1][:n]
    raw = _B(op) + b''.join(struct.pack('<H', h) for h in hs)
    p = att.ATT_PDU.from_bytes(raw)
    if list(p.set_of_handles) != hs or bytes(p) != raw:
        return False
    return bytes(type(p)(set_of_handles=list(p.set_of_handles))) == raw


@harness(pre=['0 <= v0 <= 255 and 0 <= v1 <= 255 and 0 <= v2 <= 255'], family='att-lists', grid={'l0': [0, 1, 2], 'l1': [0, 1]},
         kernels=('bumble.att.ATT_Read_Multiple_Variable_Response._parse_length_value_tuples', 'bumble.att.ATT_PDU.from_bytes'),
         bounds='ATT Read Multiple Variable Response with two length/value tuples of 0..2 / 0..1 bytes')
def att_read_multiple_variable_response_rt(v0: int, v1: int, v2: int, l0: int, l1: int) -> bool:
    a, b = _B(v0, v1)[:l0], _B(v2)[:l1]
    raw = _B(int(att.Opcode.ATT_READ_MULTIPLE_VARIABLE_RESPONSE)) + struct.pack('<H', l0) + a + struct.pack('<H', l1) + b
    p = att.ATT_PDU.from_bytes(raw)
    if bytes(p) != raw:
        return False
    q = att.ATT_Read_Multiple_Variable_Response(length_value_tuple_list=list(p.length_value_tuple_list))
    return bytes(q) == raw and [v for _, v in p.length_value_tuple_list] == [a, b]


@harness(pre=['0 <= h0 <= 0xFFFF and 0 <= h1 <= 0xFFFF and 0 <= v0 <= 255 and 0 <= v1 <= 255'], family='att-lists', grid={'kind': [0, 1, 2, 3], 'items': [1, 2]},
         kernels=('bumble.att.ATT_PDU.from_bytes', 'bumble.att.ATT_Read_By_Type_Response.__post_init__', 'bumble.att.ATT_Read_By_Group_Type_Response.__post_init__',
                  'bumble.att.ATT_Find_Information_Response.__post_init__', 'bumble.att.ATT_Find_By_Type_Value_Response.__post_init__'),
         bounds='ATT list responses (Read By Type, Read By Group Type, Find Information fmt 1, Find By Type Value) with 1..2 items; handles and value bytes symbolic')
def att_list_responses_rt(h0: int, h1: int, v0: int, v1: int, kind: int, items: int) -> bool:
    hb = [struct.pack('<H', h0), struct.pack('<H', h1)]
    if kind == 0:       # Read By Type Response: length, (handle, value(1))*
        raw = _B(int(att.Opcode.ATT_READ_BY_TYPE_RESPONSE), 3) + b''.join(hb[i] + _B([v0, v1][i]) for i in range(items))
        want = [(h, _B(v)) for h, v in zip([h0, h1], [v0, v1])][:items]
        attr = 'attributes'
    elif kind == 1:     # Read By Group Type Response: length, (handle, end, value(1))*
        raw = _B(int(att.Opcode.ATT_READ_BY_GROUP_TYPE_RESPONSE), 5) + b''.join(hb[i] + hb[1 - i] + _B([v0, v1][i]) for i in range(items))
        want = [(h0, h1, _B(v0)), (h1, h0, _B(v1))][:items]
        attr = 'attributes'
    elif kind == 2:     # Find Information Response, format 1: (handle, uuid16)*
        raw = _B(int(att.Opcode.ATT_FIND_INFORMATION_RESPONSE), 1) + b''.join(hb[i] + _B([v0, v1][i], 0x2A) for i in range(items))
        want = [(h0, _B(v0, 0x2A)), (h1, _B(v1, 0x2A))][:items]
        attr = 'information'
    else:               # Find By Type Value Response: (found handle, group end)*
        raw = _B(int(att.Opcode.ATT_FIND_BY_TYPE_VALUE_RESPONSE)) + b''.join(hb[i] + hb[1 - i] for i in range(items))
        want = [(h0, h1), (h1, h0)][:items]
        attr = 'handles_information'
    p = att.ATT_PDU.from_bytes(raw)
    if bytes(p) != raw or list(getattr(p, attr)) != want:
        return False
    fields = {n: getattr(p, n) for n in gencodec.flat_names(type(p).fields)}
    return bytes(type(p)(**fields)) == raw


# ------------------------------------------------------------------------------------------
# AVDTP service capabilities
@harness(pre=['0 <= cat <= 255 and cat != 7 and 0 <= d0 <= 255 and 0 <= d1 <= 255 and 0 <= cat2 <= 255 and cat2 != 7'], family='avdtp-caps', grid={'n': [0, 1, 2]},
         kernels=('bumble.avdtp.ServiceCapabilities.parse_capabilities', 'bumble.avdtp.ServiceCapabilities.serialize_capabilities'),
         bounds='two AVDTP service capabilities (non media-codec categories), 0..2 capability bytes')
def avdtp_caps_rt(cat: int, d0: int, d1: int, cat2: int, n: int) -> bool:
    raw = _B(cat, n) + _B(d0, d1)[:n] + _B(cat2, 0)
    caps = avdtp.ServiceCapabilities.parse_capabilities(raw)
    if len(caps) != 2 or caps[0].service_category != cat or caps[0].service_capabilities_bytes != _B(d0, d1)[:n]:
        return False
    rebuilt = [avdtp.ServiceCapabilities(c.service_category, c.service_capabilities_bytes) for c in caps]
    return avdtp.ServiceCapabilities.serialize_capabilities(rebuilt) == raw


@harness(pre=['0 <= mt <= 15'], family='avdtp-caps', grid={'codec': [0, 2, 0xFF], 'd0': [0x21, 0xFF], 'd1': [0x15, 0xFF]},
         kernels=('bumble.avdtp.MediaCodecCapabilities.from_bytes', 'bumble.avdtp.ServiceCapabilities.serialize_capabilities'),
         bounds='AVDTP media codec capabilities: media type 4 bit symbolic, codec types SBC/AAC/vendor, codec information bytes from two concrete patterns (flag-typed fields)')
def avdtp_media_codec_caps_rt(mt: int, codec: int, d0: int, d1: int) -> bool:
    info = {0: _B(d0, d1, 2, 53), 2: _B(d0, d1, 0x8C, 0x80, 0, 0), 0xFF: _B(d0, d1, 0, 0, 1, 0, 7)}[codec]
    body = _B(mt * 16, codec) + info
    raw = _B(7, len(body)) + body
    caps = avdtp.ServiceCapabilities.parse_capabilities(raw)
    return len(caps) == 1 and avdtp.ServiceCapabilities.serialize_capabilities(caps) == raw


# ------------------------------------------------------------------------------------------
# RTP
@harness(pre=['0 <= b0h <= 15 and 0 <= b1 <= 255 and 0 <= seq <= 0xFFFF and 0 <= ts <= 0xFFFFFFFF and 0 <= ssrc <= 0xFFFFFFFF',
              '0 <= c0 <= 0xFFFFFFFF and 0 <= c1 <= 0xFFFFFFFF and 0 <= d0 <= 255'],
         family='rtp', grid={'cc': [0, 1, 2]}, kernels=('bumble.rtp.MediaPacket.from_bytes', 'bumble.rtp.MediaPacket.__bytes__'), twin=True,
         bounds='RTP media packet: header bits, sequence, timestamp, SSRC, 0..2 CSRC entries, one payload byte; all symbolic')
def rtp_rt(b0h: int, b1: int, seq: int, ts: int, ssrc: int, c0: int, c1: int, d0: int, cc: int) -> bool:
    raw = _B(b0h * 16 + cc, b1) + struct.pack('>HII', seq, ts, ssrc) + b''.join(struct.pack('>I', c) for c in [c0, c1][:cc]) + _B(d0)
    p = rtp.MediaPacket.from_bytes(raw)
    if p.csrc_list != [c0, c1][:cc] or p.payload != _B(d0) or p.sequence_number != seq or p.timestamp != ts or p.ssrc != ssrc:
        return False
    q = rtp.MediaPacket(p.version, p.padding, p.extension, p.marker, p.sequence_number, p.timestamp, p.ssrc, p.csrc_list, p.payload_type, p.payload)
    return bytes(p) == raw and bytes(q) == raw


# ------------------------------------------------------------------------------------------
# advertising data, address, UUID
@harness(pre=['0 <= d0 <= 255 and 0 <= d1 <= 255 and 0 <= d2 <= 255'], family='core', grid={'n0': [0, 1, 2], 'n1': [0, 1], 't0': [0x01, 0xFF, 0x55], 't1': [0x09]},
         kernels=('bumble.core.AdvertisingData.from_bytes', 'bumble.core.AdvertisingData.append', 'bumble.core.AdvertisingData.__bytes__'),
         bounds='advertising data with two AD structures (AD type from {flags, manufacturer, undeclared 0x55}), 0..2 / 0..1 symbolic data bytes')
def advertising_data_rt(d0: int, d1: int, d2: int, n0: int, n1: int, t0: int, t1: int) -> bool:
    raw = _B(n0 + 1, t0) + _B(d0, d1)[:n0] + _B(n1 + 1, t1) + _B(d2)[:n1]
    ad = core.AdvertisingData.from_bytes(raw)
    if bytes(ad) != raw or len(ad.ad_structures) != 2:
        return False
    ad2 = core.AdvertisingData([(int(t), bytes(d)) for t, d in ad.ad_structures])
    return bytes(ad2) == raw and core.AdvertisingData.from_bytes(bytes(ad2)).ad_structures == ad.ad_structures


@harness(pre=['0 <= a0 <= 255 and 0 <= a1 <= 255 and 0 <= a2 <= 255 and 0 <= a3 <= 255 and 0 <= a4 <= 255 and 0 <= a5 <= 255'], family='core', grid={'at': [0, 1, 2, 3]},
         kernels=('bumble.hci.Address.__init__', 'bumble.hci.Address.__bytes__', 'bumble.hci.Address.to_string'),
         bounds='address: all 6 bytes symbolic, every address type; bytes and string forms')
def address_rt(a0: int, a1: int, a2: int, a3: int, a4: int, a5: int, at: int) -> bool:
    raw = _B(a0, a1, a2, a3, a4, a5)
    a = hci.Address(raw, hci.AddressType(at))
    b = hci.Address(bytes(a), a.address_type)
    return bytes(a) == raw and a == b and bytes(b) == raw and a.address_type == at


def _canary_uuid_width_blind():
    def register(self):
        for u in self.UUIDS:
            if self == u:
                return u
        self.UUIDS.append(self)
        return self
    core.UUID.register = register


@harness(pre=['0 <= x0 <= 255 and 0 <= x1 <= 255'], family='core', grid={'first': [2, 4, 16], 'second': [2, 4, 16]},
         kernels=('bumble.core.UUID.from_bytes', 'bumble.core.UUID.register', 'bumble.core.UUID.to_bytes', 'bumble.core.UUID.__eq__'),
         canaries=[('uuid-registry-ignores-width', _canary_uuid_width_blind)],
         bounds='UUID history: the same value is first parsed in width `first`, then in width `second` (2/4/16 bytes); value bytes symbolic')
def uuid_history_rt(x0: int, x1: int, first: int, second: int) -> bool:
    del core.UUID.UUIDS[8:]

    def enc(w):
        if w == 2:
            return _B(x0, x1)
        if w == 4:
            return _B(x0, x1, 0, 0)
        return core.UUID.BASE_UUID + _B(x0, x1, 0, 0)
    u1 = core.UUID.from_bytes(enc(first))
    u2 = core.UUID.from_bytes(enc(second))
    return bytes(u1) == enc(first) and bytes(u2) == enc(second) and u1 == u2 and u1.to_bytes(force_128=True) == enc(16)


# ------------------------------------------------------------------------------------------
# AVCTP
@harness(pre=['0 <= label <= 15 and 0 <= cr <= 1 and 0 <= ipid <= 1 and 0 <= pid <= 0xFFFF and 0 <= d0 <= 255 and 0 <= d1 <= 255', 'ipid == 0 or cr == 1'], family='avctp', grid={'n': [0, 1, 2]},
         kernels=('bumble.avctp.Protocol.send_message', 'bumble.avctp.MessageAssembler.on_pdu'),
         bounds='AVCTP single-packet message: label, c/r, ipid, pid, 0..2 payload bytes symbolic; sender -> assembler')
def avctp_single_rt(label: int, cr: int, ipid: int, pid: int, d0: int, d1: int, n: int) -> bool:
    class Chan:
        def __init__(self):
            self.out = []

        def write(self, pdu):
            self.out.append(bytes(pdu))
    ch = Chan()
    p = avctp.Protocol.__new__(avctp.Protocol)
    p.l2cap_channel = ch
    payload = _B(d0, d1)[:n]
    avctp.Protocol.send_message(p, label, bool(cr == 0), bool(ipid), pid, payload)
    got = []
    asm = avctp.MessageAssembler(lambda tl, is_cmd, ip, pd, pl: got.append((tl, is_cmd, ip, pd, pl)))
    for pdu in ch.out:
        asm.on_pdu(pdu)
    return got == [(label, cr == 0, bool(ipid), pid, payload)]


# ------------------------------------------------------------------------------------------
# byte-sweep conditions for the small hand-coded codecs (AV/C frames, A2DP codec information, typed advertising
# data): for a canonical template every byte position in turn is symbolic 0..255 (split by solver forks: these
# codecs build enum/flag members and format strings, which realise), the other bytes keep the template's value.
def _sweep_ok(parse, ser, data, template):
    """bytes -> object -> bytes -> object.  Input the parser refuses is not well-formed (fine).  The canonical
    template itself must re-serialise to exactly its bytes.  A swept byte may make the input non-canonical
    (reserved bits, a length byte that no longer matches): then the parser's reading is what counts - its
    serialisation must be a fixed point (parse and serialise agree on every field)."""
    try:
        o = parse(data)
    except RecursionError:
        return False
    except Exception:
        return data != template
    b = ser(o)
    if data == template and b != data:
        return False
    try:
        o2 = parse(b)
    except Exception:
        return False
    return ser(o2) == b and (o == o2 or type(o).__eq__ is object.__eq__)


def _make_sweep(parse, ser, t, pos):
    def f(x: int) -> bool:
        x = C(x, 0, 255)
        with untraced():
            return _sweep_ok(parse, ser, t[:pos] + bytes([x]) + t[pos + 1:], t)
    return f


def _sweep_conditions():
    from bumble import avc, a2dp, data_types, core as bcore, avrcp
    from vf.e1 import Cond
    out = []

    def add(name, parse, ser, templates, family, kernels, strict_from=0, quick_every=1):
        for ti, t in enumerate(templates):
            for pos in range(strict_from, len(t)):
                f = _make_sweep(parse, ser, t, pos)
                f.__name__ = f'{name}_t{ti}_b{pos}'
                f.__module__ = __name__
                tiers = ('quick', 'thorough') if (ti * 31 + pos) % quick_every == 0 else ('thorough',)
                out.append(Cond(name=f'sweep_{name}_t{ti}_b{pos}', fn=f, pre=['0 <= x <= 255'], fixed={}, family=family, tiers=tiers, kernels=kernels, timeout=(40, 120),
                                bounds=f'{name}: canonical template {ti} ({len(t)} bytes) with byte {pos} replaced by every value 0..255: the template itself re-serialises to exactly its bytes; for every other accepted input the serialisation of the parsed object is a fixed point of parse/serialise and parses back to an equal object'))

    # AV/C frames: ctype/response nibble, subunit type and id, opcode, operands
    avc_k = ('bumble.avc.Frame.from_bytes', 'bumble.avc.Frame.to_bytes', 'bumble.avc.VendorDependentFrame.parse_operands', 'bumble.avc.PassThroughFrame.parse_operands')
    add('avc', avc.Frame.from_bytes, bytes,
        [bytes.fromhex('0048000019581000000100'), bytes.fromhex('09487c4400'), bytes.fromhex('00487cc4021122'), bytes.fromhex('01ff3007ffffffff'), bytes.fromhex('0c4831ff'),
         bytes.fromhex('0048001958200000051122334455')], 'avc', avc_k, quick_every=3)
    # A2DP codec information elements
    a2_k = ('bumble.a2dp.SbcMediaCodecInformation.from_bytes', 'bumble.a2dp.SbcMediaCodecInformation.__bytes__', 'bumble.a2dp.AacMediaCodecInformation.from_bytes',
            'bumble.a2dp.AacMediaCodecInformation.__bytes__', 'bumble.a2dp.VendorSpecificMediaCodecInformation.from_bytes', 'bumble.a2dp.OpusMediaCodecInformation.from_bytes')
    add('a2dp_sbc', a2dp.SbcMediaCodecInformation.from_bytes, bytes, [bytes.fromhex('21150235'), bytes.fromhex('ffff02fa')], 'a2dp', a2_k, quick_every=2)
    add('a2dp_aac', a2dp.AacMediaCodecInformation.from_bytes, bytes, [bytes.fromhex('800180800000'), bytes.fromhex('40fffc83e8ff')], 'a2dp', a2_k, quick_every=2)
    add('a2dp_vendor', a2dp.VendorSpecificMediaCodecInformation.from_bytes, bytes, [bytes.fromhex('e00000000100aabb')], 'a2dp', a2_k)
    add('a2dp_opus', lambda d: a2dp.MediaCodecInformation.create(a2dp.CodecType.NON_A2DP, d), bytes, [bytes.fromhex('e0000000010092')], 'a2dp', a2_k, strict_from=6)
    # typed advertising data structures: every DataType subclass, templates = lengths it accepts and reproduces
    dt_k = ('bumble.data_types', 'bumble.core.AdvertisingData.from_bytes')
    seen = []

    def walk(c):
        for sub in c.__subclasses__():
            if sub.__module__ == 'bumble.data_types' and sub not in seen:
                seen.append(sub)
            walk(sub)
    walk(bcore.DataType)
    for cls in sorted(seen, key=lambda c: c.__name__):
        if 'from_bytes' not in cls.__dict__ and not any('from_bytes' in b.__dict__ for b in cls.__mro__[1:-1] if b is not bcore.DataType):
            continue
        temps = []
        for n in (1, 2, 3, 4, 6, 7, 8, 16, 18, 20):
            t = bytes((0x21 + 7 * i) % 0x5A + 0x20 for i in range(n))
            try:
                if bytes(cls.from_bytes(t)) == t:
                    temps.append(t)
            except Exception:
                pass
            if len(temps) == 2:
                break
        if temps:
            add(f'ad_{cls.__name__}', cls.from_bytes, bytes, [t for t in temps if len(t) <= 8][:2] or temps[:1], 'data-types', dt_k, quick_every=8)
    return out


def _items_blob(a0, a1, n_items):
    """a GetFolderItems response body: status, UID counter, count, then folder items"""
    from bumble import avrcp
    items = [avrcp.FolderItem(folder_uid=0x0102030405060708 + k, folder_type=avrcp.FolderItem.FolderType.TITLES, is_playable=avrcp.FolderItem.Playable.PLAYABLE,
                              character_set_id=avrcp.CharacterSetId.UTF_8, displayable_name='ab' + chr(0x41 + k)) for k in range(n_items)]
    return items


@harness(pre=['0 <= a0 <= 255 and 0 <= a1 <= 255 and 1 <= n <= 3'], family='avrcp-items', twin=True, timeout=(60, 200),
         kernels=('bumble.avrcp.BrowseableItem.parse_from_bytes', 'bumble.avrcp.BrowseableItem.__bytes__', 'bumble.avrcp.GetFolderItemsResponse.from_parameters'),
         bounds='GetFolderItemsResponse with 1..3 folder items (UID counter bytes symbolic): bytes -> response -> each parsed item re-serialises to exactly its own bytes, and a response rebuilt from the parsed items serialises to the original bytes')
def avrcp_folder_items_rt(a0: int, a1: int, n: int) -> bool:
    from bumble import avrcp
    n = C(n, 1, 3)
    items = _items_blob(a0, a1, n)
    raw_items = [bytes(i) for i in items]
    body = bytes([int(avrcp.StatusCode.OPERATION_COMPLETED), a0, a1, 0, n]) + b''.join(raw_items)
    r = avrcp.Response.from_bytes(body, avrcp.PduId.GET_FOLDER_ITEMS)
    if type(r) is not avrcp.GetFolderItemsResponse or len(r.items) != n or r.uid_counter != a0 * 256 + a1:
        return False
    for item, raw in zip(r.items, raw_items):
        if bytes(item) != raw:
            return False
    r2 = avrcp.GetFolderItemsResponse(status=r.status, uid_counter=r.uid_counter, items=list(r.items))
    return bytes(r2) == body


def conditions():
    out = registered(__name__)
    out += gencodec.conditions(['att', 'smp', 'l2capsig', 'avdtp', 'avrcpcmd', 'avrcprsp', 'avrcpevt'])
    out += _sweep_conditions()
    return out


_flags.int_format_placeholder = True     # log f-strings with symbolic ints are not the subject here (see vf/flags.py)


def e2_obligations(tier):
    """AVDTP messages longer than one signalling packet are serialised by Protocol.send_message: the per-iteration
    verification condition (shared with C19) covers the packet count / START-CONTINUE-END labelling at full scale"""
    from vf import e2k
    return [e2k.avdtp_send_iteration()]
