"""C20 — RFCOMM carries the exact byte stream; HFP on top negotiates consistently.

RFCOMM: two real DLCs (write/process_tx/on_uih_frame) through the real frame codec with an observer
keeping the credit ledger under symbolic schedules; real Multiplexers over stub L2CAP channels for
set-up / teardown.  HFP: the real AgProtocol AT reader and handlers (exactly one final result code per
command), and real HfProtocol.initiate_slc against the real AgProtocol for feature subsets.
"""
import re

from vf.e1 import Stalled, cpu_deadline, harness, untraced, concrete as C
from vf import detloop

from bumble import rfcomm, hfp, l2cap

ASSUMPTIONS = [
    'the RFCOMM conditions split their control values (sizes, credits, schedules) by solver forks and run the real code concretely per path (payload bytes are opaque to RFCOMM); RFCOMM frame sizes are scaled (2..8) in the transfer conditions: DLC.process_tx has no clamp and is size-generic; negotiated legal sizes are covered by the set-up conditions',
    'OK, ERROR and +CME ERROR: n are final result codes; unsolicited result codes (+BRSF:, +CIND:, ...) are not (DESIGN 3.0)',
    'AT command lines are concrete strings chosen by symbolic indices (regular expressions and str/int conversions are C-level); the AG handler set is read from the class on each run',
    'HFP feature words: all subsets of the three features that steer the SLC procedure (codec negotiation, three-way calling, HF indicators) x remaining bits all 0 / all 1',
]
K_DLC = ('bumble.rfcomm.DLC.write', 'bumble.rfcomm.DLC.process_tx', 'bumble.rfcomm.DLC.rx_credits_needed', 'bumble.rfcomm.DLC.on_uih_frame',
         'bumble.rfcomm.RFCOMM_Frame.uih', 'bumble.rfcomm.RFCOMM_Frame.from_bytes', 'bumble.rfcomm.RFCOMM_Frame.__bytes__')
K_MUX = ('bumble.rfcomm.Multiplexer.on_pdu', 'bumble.rfcomm.Multiplexer.on_mcc_pn', 'bumble.rfcomm.Multiplexer.open_dlc', 'bumble.rfcomm.Multiplexer.connect',
         'bumble.rfcomm.DLC.accept', 'bumble.rfcomm.DLC.connect', 'bumble.rfcomm.DLC.on_sabm_frame', 'bumble.rfcomm.DLC.on_ua_frame', 'bumble.rfcomm.DLC.on_disc_frame',
         'bumble.rfcomm.DLC.disconnect')
K_HFP = ('bumble.hfp.AgProtocol._read_at', 'bumble.hfp.AtCommand.parse_from', 'bumble.at.parse_parameters', 'bumble.hfp.HfProtocol.initiate_slc', 'bumble.hfp.HfProtocol._read_at',
         'bumble.hfp.HfProtocol.execute_command')


# ------------------------------------------------------------------------------------------
# DLC data transfer with a credit ledger
class _Chan:
    def __init__(self, peer_mtu):
        self.peer_mtu = peer_mtu


class _Mux:
    """what a DLC needs from its multiplexer; frames go through the real codec"""

    def __init__(self, role, l2cap_mtu):
        self.role = role
        self.l2cap_channel = _Chan(l2cap_mtu)
        self.out = []

    def send_frame(self, frame):
        self.out.append(bytes(frame))


def _canary_data_without_credit():
    def process_tx(self):
        rx_credits_needed = self.rx_credits_needed()
        while self.tx_buffer or rx_credits_needed > 0:
            if rx_credits_needed > 0:
                chunk = bytes([rx_credits_needed])
                self.rx_credits += rx_credits_needed
                if self.tx_buffer:                     # forgot: and self.tx_credits > 0
                    chunk += self.tx_buffer[: self.mtu - 1]
                    self.tx_buffer = self.tx_buffer[len(chunk) - 1:]
                    self.tx_credits -= 1
            elif self.tx_credits > 0:
                chunk = self.tx_buffer[: self.mtu]
                self.tx_buffer = self.tx_buffer[len(chunk):]
                self.tx_credits -= 1
            else:
                break
            self.send_frame(rfcomm.RFCOMM_Frame.uih(c_r=self.c_r, dlci=self.dlci, information=chunk, p_f=1 if rx_credits_needed > 0 else 0))
            rx_credits_needed = 0
    rfcomm.DLC.process_tx = process_tx


def _pair(frame_size, credits_ab, credits_ba, l2cap_mtu=64):
    ma, mb = _Mux(rfcomm.Multiplexer.Role.INITIATOR, l2cap_mtu), _Mux(rfcomm.Multiplexer.Role.RESPONDER, l2cap_mtu)
    a = rfcomm.DLC(ma, 4, tx_max_frame_size=frame_size, tx_initial_credits=credits_ab, rx_max_frame_size=frame_size, rx_initial_credits=credits_ba)
    b = rfcomm.DLC(mb, 4, tx_max_frame_size=frame_size, tx_initial_credits=credits_ba, rx_max_frame_size=frame_size, rx_initial_credits=credits_ab)
    a.state = b.state = rfcomm.DLC.State.CONNECTED
    return ma, mb, a, b


def _deliver(raw, dst, ledger, frame_size, who):
    """hand one frame to the destination DLC; `ledger` = credits held by the SENDER of this frame (observer's count)"""
    f = rfcomm.RFCOMM_Frame.from_bytes(raw)
    info = f.information
    payload = info[1:] if f.p_f else info
    if len(payload) > (frame_size - 1 if f.p_f else frame_size):
        return False
    if payload:
        ledger[who] -= 1
        if ledger[who] < 0:
            return False                       # data sent without a credit
    if f.p_f:
        ledger[1 - who] += info[0]
    dst.on_frame(f)
    return True


@harness(pre=['0 <= n2 <= 3 and 0 <= s1 <= 1 and 0 <= s2 <= 1 and 0 <= s3 <= 1 and 0 <= s4 <= 1 and 0 <= s5 <= 1'], family='dlc-transfer', twin=True,
         kernels=K_DLC, timeout=(90, 300), canaries=[('data-on-credit-frame-without-tx-credit', _canary_data_without_credit)],
         grids=[(('quick',), {'frame_size': [2, 5], 'ca': [1, 3], 'cb': [1], 'n1': [1, 7], 'back': [0, 3], 'scale': [0, 1], 'late_sink': [0]}),
                (('quick',), {'frame_size': [2], 'ca': [3], 'cb': [1], 'n1': [7], 'back': [3], 'scale': [1], 'late_sink': [1]}),
                (('thorough',), {'frame_size': [2, 3, 5, 8], 'ca': [1, 2, 3, 7], 'cb': [1, 7], 'n1': [1, 4, 7, 12], 'back': [0, 3, 6], 'scale': [0, 1], 'late_sink': [0, 1]})],
         bounds='two DLCs, frame size / initial credits per condition (scaled 2..8, credits 1..7), A writes n1 then 0..3 distinct bytes (symbolic count), B writes `back` bytes, first 5 delivery choices symbolic (A->B or B->A frame next), default or scaled (3/1) replenishment maximum/threshold, receiver sink attached at once or after 3 deliveries: both byte streams identical, payload <= frame size (-1 with a credit byte), never data without a credit, both transfers complete')
def dlc_transfer(n2: int, s1: int, s2: int, s3: int, s4: int, s5: int, frame_size: int, ca: int, cb: int, n1: int, back: int, scale: int, late_sink: int) -> bool:
    n2, s1, s2, s3, s4, s5 = C(n2, 0, 3), C(s1, 0, 1), C(s2, 0, 1), C(s3, 0, 1), C(s4, 0, 1), C(s5, 0, 1)
    with untraced():
        return _dlc_transfer_concrete(n2, [s1, s2, s3, s4, s5], frame_size, ca, cb, n1, back, scale, late_sink)


def _dlc_transfer_concrete(n2, sched, frame_size, ca, cb, n1, back, scale, late_sink):
    with detloop.running():
        ma, mb, a, b = _pair(frame_size, ca, cb)
        if scale:
            # scaled replenishment geometry (default: maximum 40 / threshold 16): frames without a credit byte occur within a few frames
            for d in (a, b):
                d.rx_max_credits, d.rx_credits_threshold = 3, 1
        got_b, got_a = [], []
        if not late_sink:
            b.sink = got_b.append
        a.sink = got_a.append
        ledger = [ca, cb]                 # credits held by A (to send to B) and by B
        wa = bytes(range(1, 1 + n1 + n2))          # distinct bytes: reordering, loss and duplication are all visible
        wb = bytes(range(0x80, 0x80 + back))
        a.write(wa[:n1])
        if n2:
            a.write(wa[n1:])
        if back:
            b.write(wb)
        ia = ib = 0
        for step, s in enumerate(list(sched) + [0, 1] * 60):
            if late_sink and step == 3:
                b.sink = got_b.append          # frames received so far were parked; they must come out in order
            if s == 0 and ia < len(ma.out):
                if not _deliver(ma.out[ia], b, ledger, frame_size, 0):
                    return False
                ia += 1
            elif ib < len(mb.out):
                if not _deliver(mb.out[ib], a, ledger, frame_size, 1):
                    return False
                ib += 1
            elif ia < len(ma.out):
                if not _deliver(ma.out[ia], b, ledger, frame_size, 0):
                    return False
                ia += 1
            else:
                break
        if late_sink and b.sink is None:
            b.sink = got_b.append
        return b''.join(got_b) == wa and b''.join(got_a) == wb and a.tx_credits == ledger[0] and b.tx_credits == ledger[1]


@harness(pre=['0 <= frames <= 20 and 1 <= init <= 7'], family='dlc-transfer', kernels=K_DLC, timeout=(60, 200),
         bounds='receiver replenishment: initial credits 1..7 (symbolic), 0..20 one-byte frames received (symbolic): the sender never starves while the receiver consumes and the receiver ledger never exceeds its maximum')
def dlc_receiver_replenishes(frames: int, init: int) -> bool:
    frames, init = C(frames, 0, 20), C(init, 1, 7)
    with untraced():
        return _replenish_concrete(frames, init)


def _replenish_concrete(frames, init):
    with detloop.running():
        ma, mb, a, b = _pair(8, init, 1)
        b.sink = lambda d: None
        held = init
        for i in range(frames):
            if held == 0:
                return False
            held -= 1
            b.on_frame(rfcomm.RFCOMM_Frame.uih(c_r=1, dlci=4, information=b'x'))
            while mb.out:
                f = rfcomm.RFCOMM_Frame.from_bytes(mb.out.pop(0))
                if f.p_f:
                    held += f.information[0]
            if held != b.rx_credits or held > max(init, b.rx_max_credits):
                return False
        return True


# ------------------------------------------------------------------------------------------
# multiplexer + DLC set-up / teardown over stub L2CAP channels
class _L2:
    EVENT_CLOSE = 'close'

    def __init__(self, loop, mtu):
        self.loop, self.peer_mtu, self.sink, self.peer = loop, mtu, None, None
        self.connection = type('C', (), {'peer_address': 'peer'})()

    def on(self, *a):
        pass

    def write(self, pdu):
        self.loop.call_soon(self.peer.sink, bytes(pdu))


def _muxes(loop, mtu):
    la, lb = _L2(loop, mtu), _L2(loop, mtu)
    la.peer, lb.peer = lb, la
    return rfcomm.Multiplexer(la, rfcomm.Multiplexer.Role.INITIATOR), rfcomm.Multiplexer(lb, rfcomm.Multiplexer.Role.RESPONDER)


@harness(pre=['1 <= credits <= 7 and 1 <= scredits <= 7 and 0 <= ch1 <= 2 and 0 <= order <= 1 and 0 <= closer <= 1'], family='mux-setup', twin=True, kernels=K_MUX, timeout=(90, 300),
         grid={'fs': [23, 32767], 'sfs': [23, 1000], 'mtu': [48, 1024]},
         bounds='multiplexer connect, two DLCs opened (first channel number from {1, 15, 30}), a byte exchanged each way, DLCs closed by either end in either order: negotiated frame sizes/credits consistent on both ends (frame size per condition at the ends of 23..32767, initial credits 1..7 symbolic), states match after every step, no interference between the two DLCs')
def mux_open_transfer_close(credits: int, scredits: int, ch1: int, order: int, closer: int, fs: int, sfs: int, mtu: int) -> bool:
    order, closer = C(order, 0, 1), C(closer, 0, 1)
    ch1, credits, scredits = [1, 15, 30][C(ch1, 0, 2)], C(credits, 1, 7), C(scredits, 1, 7)
    with untraced():
        return _mux_concrete(credits, scredits, ch1, order, closer, fs, sfs, mtu)


def _mux_concrete(credits, scredits, ch1, order, closer, fs, sfs, mtu):
    with detloop.running() as loop:
        ma, mb = _muxes(loop, mtu)
        accepted = []
        mb.acceptor = lambda channel: (sfs, scredits)
        mb.on(mb.EVENT_DLC, accepted.append)
        t = loop.create_task(ma.connect())
        loop.run_ready()
        if not t.done() or t.exception() or ma.state != ma.State.CONNECTED or mb.state != mb.State.CONNECTED:
            return False
        pairs = []
        for ch in (ch1, (ch1 % 30) + 1):
            t = loop.create_task(ma.open_dlc(ch, max_frame_size=fs, initial_credits=credits))
            loop.run_ready()
            if not t.done() or t.exception() is not None or len(accepted) != len(pairs) + 1:
                return False
            a, b = t.result(), accepted[-1]
            if a.dlci != ch * 2 or b.dlci != a.dlci or a.state != a.State.CONNECTED or b.state != b.State.CONNECTED:
                return False
            if (a.tx_credits, b.tx_credits) != (scredits, credits) or a.tx_max_frame_size != sfs or b.tx_max_frame_size != fs:
                return False
            pairs.append((a, b))
        # one byte each way on each DLC, no cross-talk
        for i, (a, b) in enumerate(pairs):
            ga, gb = [], []
            a.sink, b.sink = ga.append, gb.append
            a.write(bytes([0x10 + i]))
            b.write(bytes([0x20 + i]))
            loop.run_ready()
            if gb != [bytes([0x10 + i])] or ga != [bytes([0x20 + i])]:
                return False
        todo = pairs if order == 0 else pairs[::-1]
        for a, b in todo:
            d = a if closer == 0 else b
            t = loop.create_task(d.disconnect())
            loop.run_ready()
            if not t.done() or t.exception() is not None:
                return False
            # both ends of this DLC are closed, the other DLC is untouched
            if a.state == a.State.CONNECTED or b.state == b.State.CONNECTED:
                return False
            other = [p for p in pairs if p != (a, b)][0]
            if todo.index((a, b)) == 0 and (other[0].state != other[0].State.CONNECTED or other[1].state != other[1].State.CONNECTED):
                return False
        t = loop.create_task(ma.disconnect())
        loop.run_ready()
        return t.done() and t.exception() is None and ma.state == ma.State.DISCONNECTED and mb.state == mb.State.DISCONNECTED


# ------------------------------------------------------------------------------------------
# HFP AG: exactly one final result code per AT command
class _Dlc:
    def __init__(self):
        self.out = []
        self.sink = None

    def write(self, data):
        self.out.append(data if isinstance(data, str) else data.decode())


def _ag(features=(), cme=False, all_hold_ops=False):
    dlc = _Dlc()
    cfg = hfp.AgConfiguration(
        supported_ag_features=list(features),
        supported_ag_indicators=[hfp.AgIndicatorState.call(), hfp.AgIndicatorState.service()],
        supported_hf_indicators=[hfp.HfIndicator.ENHANCED_SAFETY, hfp.HfIndicator.BATTERY_LEVEL],
        supported_ag_call_hold_operations=(list(hfp.CallHoldOperation) if all_hold_ops else [hfp.CallHoldOperation.RELEASE_ALL_HELD_CALLS, hfp.CallHoldOperation.HOLD_ALL_ACTIVE_CALLS]),
        supported_audio_codecs=[hfp.AudioCodec.CVSD, hfp.AudioCodec.MSBC])
    ag = hfp.AgProtocol(dlc, cfg)
    ag.cme_error_enabled = cme
    return ag, dlc


_FINAL = re.compile(r'^\r\n(OK|ERROR|\+CME ERROR: \d+)\r\n$')


def _handlers():
    """(code, sub) for every AG handler method, read from the class"""
    out = []
    for name in sorted(dir(hfp.AgProtocol)):
        if name.startswith('_on_') and callable(getattr(hfp.AgProtocol, name)):
            base = name[4:]
            if base.endswith('_test'):
                out.append((base[:-5].upper(), '=?'))
            elif base.endswith('_read'):
                out.append((base[:-5].upper(), '?'))
            else:
                out.append((base.upper(), '='))
    return out


HANDLERS = _handlers()
PARAMS = ['', '0', '1', '3', '2,1', '3,0,0,1', '1,1,1', '21', '1x', '9', '7,2', '11', '12', '22', '4']


def _line(code, sub, p):
    if code == 'A':
        return 'ATA'
    if code == 'D':
        return 'ATD' + p + ';'
    if sub == '=':
        return f'AT+{code}' + (('=' + p) if p else '')
    return f'AT+{code}{sub}'


@harness(pre=['0 <= i < len(HANDLERS) and 0 <= j < len(PARAMS)'], family='ag-final-result', twin=True, kernels=K_HFP, timeout=(90, 300),
         grid={'feat': [0, 1, 2], 'cme': [0, 1]},
         bounds='every AT command the AG has a handler for (set/read/test forms, read from AgProtocol on each run) x 15 parameter strings of arity 0..4 incl. unexpected arity and non-numeric values x AG features {none, all, all + every call-hold operation incl. the indexed 1x / 2x forms with no such call} x CME errors on/off, preceded by the BRSF exchange: exactly one final result code (OK / ERROR / +CME ERROR) per command, and the reader still answers the next command')
def ag_one_final_result(i: int, j: int, feat: int, cme: int) -> bool:
    i, j = C(i, 0, len(HANDLERS) - 1), C(j, 0, len(PARAMS) - 1)
    with untraced():
        with detloop.running() as loop:
            ag, dlc = _ag(list(hfp.AgFeature) if feat else [], bool(cme), all_hold_ops=(feat == 2))
            ag._read_at(b'AT+BRSF=1023\r')
            loop.run_ready()
            n0 = len(dlc.out)
            code, sub = HANDLERS[i]
            line = _line(code, sub, PARAMS[j])
            try:
                ag._read_at(line.encode() + b'\r')
            except Exception:
                pass
            loop.run_ready()
            finals = [o for o in dlc.out[n0:] if _FINAL.match(o)]
            if len(finals) != 1:
                return False
            n1 = len(dlc.out)
            try:
                ag._read_at(b'AT+CMEE=1\r')
            except Exception:
                return False
            loop.run_ready()
            return [o for o in dlc.out[n1:] if _FINAL.match(o)] == ['\r\nOK\r\n']


@harness(pre=['0 <= x0 <= 127 and 0 <= x1 <= 127 and 0 <= x2 <= 127'], family='ag-final-result', kernels=K_HFP, timeout=(90, 300), grid={'n': [1, 3]},
         bounds='1..3 arbitrary 7-bit bytes (symbolic) followed by CR, then a well-formed command: the reader answers the well-formed command (no wedge)')
def ag_garbage_then_command(x0: int, x1: int, x2: int, n: int) -> bool:
    with detloop.running() as loop:
        ag, dlc = _ag()
        try:
            with cpu_deadline(20.0):
                ag._read_at(bytes([x0, x1, x2][:n]) + b'\r')
        except Stalled:
            return False          # a busy loop in the reader
        except Exception:
            pass
        n0 = len(dlc.out)
        try:
            ag._read_at(b'AT+CMEE=1\r')
        except Exception:
            return False
        loop.run_ready()
        return len([o for o in dlc.out[n0:] if _FINAL.match(o)]) == 1 and dlc.out[-1] == '\r\nOK\r\n'


# ------------------------------------------------------------------------------------------
# HFP service level connection for feature subsets
class _PipeDlc:
    def __init__(self, loop):
        self.loop, self.sink, self.peer = loop, None, None
        self.written = []
        self.multiplexer = type('M', (), {'l2cap_channel': _L2(loop, 64)})()

    def write(self, data):
        data = data.encode() if isinstance(data, str) else data
        self.written.append(data)
        self.loop.call_soon(lambda: self.peer.sink and self.peer.sink(data))


_HF_STEER = [hfp.HfFeature.CODEC_NEGOTIATION, hfp.HfFeature.THREE_WAY_CALLING, hfp.HfFeature.HF_INDICATORS]
_AG_STEER = [hfp.AgFeature.CODEC_NEGOTIATION, hfp.AgFeature.THREE_WAY_CALLING, hfp.AgFeature.HF_INDICATORS]


@harness(pre=['0 <= hf_bits <= 7 and 0 <= ag_bits <= 7 and 0 <= hf_rest <= 1 and 0 <= ag_rest <= 1'], family='hfp-slc', twin=True, kernels=K_HFP, timeout=(120, 400),
         bounds='real HfProtocol.initiate_slc against the real AgProtocol over two piped DLCs: every subset of {codec negotiation, three-way calling, HF indicators} on each side (symbolic 3-bit masks) x remaining feature bits all clear / all set: the procedure completes, the AG reports slc_complete, both ends hold the same feature words, codecs, call-hold operations, HF indicator set and AG indicator table (indicator, value set, current value, position), and every AT command got exactly one final result')
def hfp_slc(hf_bits: int, ag_bits: int, hf_rest: int, ag_rest: int) -> bool:
    hf_bits, ag_bits, hf_rest, ag_rest = C(hf_bits, 0, 7), C(ag_bits, 0, 7), C(hf_rest, 0, 1), C(ag_rest, 0, 1)
    with untraced():
        with detloop.running() as loop:
            hf_feats = [f for k, f in enumerate(_HF_STEER) if (hf_bits >> k) & 1] + ([f for f in hfp.HfFeature if f not in _HF_STEER] if hf_rest else [])
            ag_feats = [f for k, f in enumerate(_AG_STEER) if (ag_bits >> k) & 1] + ([f for f in hfp.AgFeature if f not in _AG_STEER] if ag_rest else [])
            da, db = _PipeDlc(loop), _PipeDlc(loop)
            da.peer, db.peer = db, da
            ag = hfp.AgProtocol(db, hfp.AgConfiguration(
                supported_ag_features=ag_feats,
                supported_ag_indicators=[hfp.AgIndicatorState.call(), hfp.AgIndicatorState.service(), hfp.AgIndicatorState.callsetup()],
                supported_hf_indicators=[hfp.HfIndicator.ENHANCED_SAFETY, hfp.HfIndicator.BATTERY_LEVEL],
                supported_ag_call_hold_operations=[hfp.CallHoldOperation.RELEASE_ALL_HELD_CALLS, hfp.CallHoldOperation.HOLD_ALL_ACTIVE_CALLS],
                supported_audio_codecs=[hfp.AudioCodec.CVSD, hfp.AudioCodec.MSBC]))
            hf = hfp.HfProtocol(da, hfp.HfConfiguration(
                supported_hf_features=hf_feats,
                supported_hf_indicators=[hfp.HfIndicator.ENHANCED_SAFETY, hfp.HfIndicator.BATTERY_LEVEL],
                supported_audio_codecs=[hfp.AudioCodec.CVSD, hfp.AudioCodec.MSBC]))
            done = []
            ag.on(ag.EVENT_SLC_COMPLETE, lambda: done.append(1))
            t = loop.create_task(hf.initiate_slc())
            for _ in range(200):
                loop.run_ready()
                if t.done() or not loop.advance():
                    break
            loop.run_ready()
            if not t.done() or t.exception() is not None:
                return False
            if len(done) != 1:
                return False
            if int(hf.supported_ag_features) != int(ag.supported_ag_features) or int(ag.supported_hf_features) != int(hf.supported_hf_features):
                return False
            both_codec = (hf_bits & 1) and (ag_bits & 1)
            if both_codec and list(ag.supported_audio_codecs) != list(hf.supported_audio_codecs):
                return False
            if (hf_bits & 2) and (ag_bits & 2) and list(hf.supported_ag_call_hold_operations) != list(ag.supported_ag_call_hold_operations):
                return False
            if (hf_bits & 4) and (ag_bits & 4) and sorted(hf.hf_indicators) != sorted(ag.hf_indicators):
                return False
            # the HF's picture of the AG indicators: same indicators, value sets, current values, in the AG's order
            if [(x.indicator, set(x.supported_values) if not isinstance(x.supported_values, int) else x.supported_values, x.current_status, x.index) for x in hf.ag_indicators] != \
                    [(x.indicator, set(x.supported_values), x.current_status, i) for i, x in enumerate(ag.ag_indicators)]:
                return False
            # one final result per command the HF sent
            commands = sum(d.count(b'\r') for d in da.written)
            finals = sum(len(re.findall(r'\r\n(OK|ERROR|\+CME ERROR: \d+)\r\n', d.decode())) for d in db.written)
            return commands == finals


_INDS = [hfp.HfIndicator.ENHANCED_SAFETY, hfp.HfIndicator.BATTERY_LEVEL]
_CODS = [hfp.AudioCodec.CVSD, hfp.AudioCodec.MSBC]
_HOLDS = [hfp.CallHoldOperation.RELEASE_ALL_HELD_CALLS, hfp.CallHoldOperation.HOLD_ALL_ACTIVE_CALLS]


@harness(pre=['0 <= hf_ind <= 3 and 0 <= ag_ind <= 3 and 1 <= hf_cod <= 3 and 1 <= ag_cod <= 3 and 0 <= chld <= 3'], family='hfp-slc', twin=True, kernels=K_HFP, timeout=(200, 500),
         bounds='real HfProtocol.initiate_slc against the real AgProtocol with codec negotiation, three-way calling and HF indicators supported on both sides and ASYMMETRIC lists: HF indicator list and AG indicator list any subset of {enhanced safety, battery level} (empty included), codec lists any non-empty subset of {CVSD, mSBC} on each side, AG call-hold operations any subset of two: the procedure completes; the AG holds exactly the HF indicators both sides listed, the HF marks exactly those as supported and enabled; the AG knows the HF codec list; the HF knows the AG call-hold operations; one final result per command')
def hfp_slc_asymmetric_lists(hf_ind: int, ag_ind: int, hf_cod: int, ag_cod: int, chld: int) -> bool:
    hf_ind, ag_ind, hf_cod, ag_cod, chld = C(hf_ind, 0, 3), C(ag_ind, 0, 3), C(hf_cod, 1, 3), C(ag_cod, 1, 3), C(chld, 0, 3)
    pick = lambda xs, m: [x for k, x in enumerate(xs) if (m >> k) & 1]
    with untraced():
        with detloop.running() as loop:
            da, db = _PipeDlc(loop), _PipeDlc(loop)
            da.peer, db.peer = db, da
            ag = hfp.AgProtocol(db, hfp.AgConfiguration(
                supported_ag_features=list(_AG_STEER),
                supported_ag_indicators=[hfp.AgIndicatorState.call(), hfp.AgIndicatorState.service(), hfp.AgIndicatorState.callsetup()],
                supported_hf_indicators=pick(_INDS, ag_ind),
                supported_ag_call_hold_operations=pick(_HOLDS, chld),
                supported_audio_codecs=pick(_CODS, ag_cod)))
            hf = hfp.HfProtocol(da, hfp.HfConfiguration(
                supported_hf_features=list(_HF_STEER),
                supported_hf_indicators=pick(_INDS, hf_ind),
                supported_audio_codecs=pick(_CODS, hf_cod)))
            done = []
            ag.on(ag.EVENT_SLC_COMPLETE, lambda: done.append(1))
            t = loop.create_task(hf.initiate_slc())
            for _ in range(200):
                loop.run_ready()
                if t.done() or not loop.advance():
                    break
            loop.run_ready()
            if not t.done() or t.exception() is not None or len(done) != 1:
                return False
            both = set(pick(_INDS, hf_ind)) & set(pick(_INDS, ag_ind))
            if set(ag.hf_indicators) != both:
                return False
            if set(hf.hf_indicators) != set(pick(_INDS, hf_ind)):
                return False
            for i, st in hf.hf_indicators.items():
                if bool(st.supported) != (i in both) or bool(st.enabled) != (i in both):
                    return False
            if list(ag.supported_audio_codecs) != pick(_CODS, hf_cod):
                return False                       # what the HF announced with AT+BAC
            if list(hf.supported_ag_call_hold_operations) != pick(_HOLDS, chld):
                return False
            commands = sum(d.count(b'\r') for d in da.written)
            finals = sum(len(re.findall(r'\r\n(OK|ERROR|\+CME ERROR: \d+)\r\n', d.decode())) for d in db.written)
            return commands == finals


@harness(pre=['0 <= cmd <= 3 and 0 <= ind <= 2 and 0 <= val <= 1 and 0 <= where <= 1'], family='hf-routing', twin=True, kernels=K_HFP, timeout=(90, 300),
         bounds='the HF has a command pending (ATA, AT+CHUP, AT+CHLD=? or AT+CIND?, symbolic) and the AG sends an unsolicited +CIEV (symbolic indicator and value) before or after that command\'s own response line, then OK: the command completes with exactly its own response (the +CIEV is not taken for it), and the unsolicited line is queued for the indicator handling')
def hf_unsolicited_result_is_not_a_response(cmd: int, ind: int, val: int, where: int) -> bool:
    cmd, ind, val, where = C(cmd, 0, 3), C(ind, 0, 2), C(val, 0, 1), C(where, 0, 1)
    with untraced():
        with detloop.running() as loop:
            da = _PipeDlc(loop)
            da.peer = type('P', (), {'sink': None})()
            hf = hfp.HfProtocol(da, hfp.HfConfiguration(supported_hf_features=[hfp.HfFeature.THREE_WAY_CALLING], supported_hf_indicators=[], supported_audio_codecs=[hfp.AudioCodec.CVSD]))
            hf.ag_indicators = [hfp.AgIndicatorState(indicator=i, supported_values={0, 1}, current_status=0, index=k) for k, i in
                                enumerate((hfp.AgIndicator.CALL, hfp.AgIndicator.SERVICE, hfp.AgIndicator.CALL_SETUP))]
            line, rtype, own = [('ATA', hfp.AtResponseType.NONE, None), ('AT+CHUP', hfp.AtResponseType.NONE, None),
                                ('AT+CHLD=?', hfp.AtResponseType.SINGLE, b'+CHLD: (0,1,2)'), ('AT+CIND?', hfp.AtResponseType.SINGLE, b'+CIND: 0,1,0')][cmd]
            t = loop.create_task(hf.execute_command(line, response_type=rtype))
            loop.run_ready()
            ciev = b'\r\n+CIEV: %d,%d\r\n' % (ind + 1, val)
            if where == 0:
                hf._read_at(ciev)
            if own:
                hf._read_at(b'\r\n' + own + b'\r\n')
            if where == 1:
                hf._read_at(ciev)
            hf._read_at(b'\r\nOK\r\n')
            for _ in range(10):
                loop.run_ready()
            if not t.done() or t.exception() is not None:
                return False
            r = t.result()
            if own is None:
                if r is not None:
                    return False
            elif r is None or r.code != own.split(b':')[0].decode():
                return False
            # the unsolicited line went to the unsolicited queue (exactly one entry, a +CIEV)
            q = hf.unsolicited_queue
            return q.qsize() == 1 and q.get_nowait().code == '+CIEV' and hf.response_queue.qsize() == 0


def e2_obligations(tier):
    """wide-range verification conditions over the AST of the real source (vf/e2.py, vf/e2k.py)"""
    from vf import e2k
    return [e2k.dlc_process_tx()]
