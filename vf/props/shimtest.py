"""Self-test of the modelling shim (trusted base): every patched operation must agree with CPython for
all operand values (symbolic), checked by CrossHair itself: Confirmed, or the run aborts with exit 3."""
import struct
from vf.e1 import harness


@harness(pre=['0 <= v <= 0xFFFF'], family='shim')
def native_H_is_little_endian(v: int) -> bool:
    b = struct.pack('H', v)
    return b[0] == v % 256 and b[1] == v // 256 and struct.unpack_from('H', b + b'\x00', 0)[0] == v


@harness(pre=['0 <= a <= 15 and 0 <= b <= 7 and 0 <= c <= 1'], family='shim')
def or_of_disjoint_fields(a: int, b: int, c: int) -> bool:
    x = (a << 4) | (b << 1) | c
    y = (a << 4) ^ (b << 1) ^ c
    return x == a * 16 + b * 2 + c and y == x and (x >> 4) & 0xF == a and (x >> 1) & 7 == b and x & 1 == c


class _B:
    def __init__(self, v):
        self.v = v

    def __bytes__(self):
        return bytes([self.v, 1])


@harness(pre=['0 <= v <= 255'], family='shim')
def bytes_of_object(v: int) -> bool:
    return bytes(_B(v)) == bytes([v]) + b'\x01'


@harness(pre=['0 <= v <= 255 and 0 <= w <= 255'], family='shim')
def unpack_from_with_trailing(v: int, w: int) -> bool:
    data = bytes([v, w, 9, 9])
    return struct.unpack_from('<H', data, 0)[0] == v + 256 * w and struct.unpack_from('>H', data, 1)[0] == w * 256 + 9


class _F:
    def __init__(self, v):
        self.v = v
        self.me = self

    def __str__(self):
        return f'F({self.v})'


@harness(pre=['0 <= v <= 9'], family='shim')
def format_of_object(v: int) -> bool:
    return f'{_F(v)}' == 'F(' + str(v) + ')'


@harness(pre=['0 <= x <= 0xFFFF'], family='shim')
def and_with_masks(x: int) -> bool:
    return ((x & 0x0F) == x % 16 and (x & 0xF0) == (x // 16) % 16 * 16 and (x & 0x8001) == (x // 32768) * 32768 + x % 2
            and ((x >> 6) & 3) == (x // 64) % 4 and (x & 0) == 0 and (0xFF & x) == x % 256)
