"""C08 — classic L2CAP channels (Basic/ERTM) deliver every SDU once, in order.

Two real EnhancedRetransmissionProcessors back to back with an independent observer decoding the control
fields on the wire (TxSeq consecutive modulo 64, unacknowledged I-frames <= the peer's window, SAR
sequences), and two real ClassicChannels set up through real ChannelManagers for every pair of specs
(mode x FCS on each side) followed by a data exchange.
"""
from vf.e1 import harness, untraced, concrete as C
from vf import flags as _flags
from vf import detloop
from vf.props.l2capstub import Wire

from bumble import l2cap

ASSUMPTIONS = [
    'sizes, windows, burst shapes and spec pairs are symbolic integers split by solver forks; each path runs the real code concretely with distinct payload bytes',
    'MPS is scaled to 1..6 in the processor conditions (no clamp in the segmentation loop); set-up conditions use the real defaults',
    'retransmission is not implemented upstream (TODO in the code) and is outside; streaming mode is outside',
    'the wire is lossless and order-preserving; acknowledgements are delivered under a symbolic schedule',
]
K = ('bumble.l2cap.EnhancedRetransmissionProcessor.send_sdu', 'bumble.l2cap.EnhancedRetransmissionProcessor._process_output', 'bumble.l2cap.EnhancedRetransmissionProcessor._send_i_frame',
     'bumble.l2cap.EnhancedRetransmissionProcessor.on_pdu', 'bumble.l2cap.EnhancedRetransmissionProcessor._update_ack_seq', 'bumble.l2cap.EnhancedRetransmissionProcessor._get_next_tx_seq')
K_SETUP = ('bumble.l2cap.ClassicChannel.connect', 'bumble.l2cap.ClassicChannel.send_configure_request', 'bumble.l2cap.ClassicChannel.on_configure_request',
           'bumble.l2cap.ClassicChannel.on_configure_response', 'bumble.l2cap.ClassicChannel.on_connection_request', 'bumble.l2cap.ClassicChannel.on_connection_response',
           'bumble.l2cap.ClassicChannel.send_pdu', 'bumble.l2cap.ClassicChannel.on_pdu', 'bumble.l2cap.L2CAP_PDU.to_bytes', 'bumble.utils.crc_16')


class _Chan:
    """stand-in for ClassicChannel: what the processor needs"""

    def __init__(self, spec):
        self.spec, self.out, self.sdus = spec, [], []

    def send_pdu(self, pdu):
        self.out.append(bytes(pdu))

    def on_sdu(self, sdu):
        self.sdus.append(bytes(sdu))


class Observer:
    """decodes ERTM control fields on the wire, independently of bumble's classes"""

    def __init__(self, window):
        self.window = window
        self.sent = []            # TxSeq of I-frames in send order
        self.acked = 0            # number of I-frames acknowledged so far
        self.sar = []

    def on_forward(self, f):
        if f[0] & 1:
            return True
        tx = (f[0] >> 1) & 0x3F
        if self.sent and tx != (self.sent[-1] + 1) % 64:
            return False                                  # sequence numbers advance modulo 64 without gaps
        if not self.sent and tx != 0:
            return False
        self.sent.append(tx)
        self.sar.append((f[1] >> 6) & 3)
        return len(self.sent) - self.acked <= self.window  # never more unacknowledged I-frames than the peer's window

    def on_backward(self, f):
        req = f[1] & 0x3F
        # req_seq acknowledges every I-frame with TxSeq before it (modulo 64)
        outstanding = self.sent[self.acked:]
        n = 0
        for tx in outstanding:
            if tx == req:
                break
            n += 1
        else:
            if outstanding and (outstanding[-1] + 1) % 64 != req:
                n = 0
        self.acked += n
        return True

    def sar_ok(self):
        # UNSEGMENTED | START CONTINUATION* END
        i = 0
        while i < len(self.sar):
            if self.sar[i] == 0:
                i += 1
                continue
            if self.sar[i] != 1:
                return False
            i += 1
            while i < len(self.sar) and self.sar[i] == 3:
                i += 1
            if i >= len(self.sar) or self.sar[i] != 2:
                return False
            i += 1
        return True


def _canary_window_bypass():
    orig = l2cap.EnhancedRetransmissionProcessor.send_sdu

    def send_sdu(self, sdu):
        if len(sdu) <= self.peer_mps and not self._pending_pdus and not self._remote_is_busy and not self._monitor_handle:
            pdu = self._PendingPdu(payload=sdu, tx_seq=self._get_next_tx_seq(), req_seq=self._req_seq_num,
                                   sar=l2cap.InformationEnhancedControlField.SegmentationAndReassembly.UNSEGMENTED)
            self._send_i_frame(pdu)
            return
        orig(self, sdu)
    l2cap.EnhancedRetransmissionProcessor.send_sdu = send_sdu


def _run_pair(mps, window, sdus, sched):
    """A sends `sdus` to B; backward (ack) frames are delivered when the schedule says so or when A is blocked"""
    with detloop.running() as loop:
        spec = l2cap.ClassicChannelSpec(psm=0x1001, mode=l2cap.TransmissionMode.ENHANCED_RETRANSMISSION)
        a, b = _Chan(spec), _Chan(spec)
        pa = l2cap.EnhancedRetransmissionProcessor(a, peer_tx_window_size=window, peer_mps=mps)
        pb = l2cap.EnhancedRetransmissionProcessor(b, peer_tx_window_size=window, peer_mps=mps)
        obs = Observer(window)
        for s in sdus:
            pa.send_sdu(s)
        ia = ib = 0
        steps = list(sched) + [0, 1] * 4000
        for s in steps:
            if s == 0 and ia < len(a.out):
                f = a.out[ia]
                ia += 1
                if not obs.on_forward(f):
                    return False
                pb.on_pdu(f)
            elif ib < len(b.out):
                f = b.out[ib]
                ib += 1
                obs.on_backward(f)
                pa.on_pdu(f)
            elif ia < len(a.out):
                f = a.out[ia]
                ia += 1
                if not obs.on_forward(f):
                    return False
                pb.on_pdu(f)
            else:
                break
        return b.sdus == list(sdus) and obs.sar_ok() and not pa._pending_pdus


@harness(pre=['1 <= mps <= 4 and 1 <= window <= 3 and 1 <= n1 <= 9 and 0 <= n2 <= 4 and 0 <= s1 <= 1 and 0 <= s2 <= 1 and 0 <= s3 <= 1'], family='ertm', twin=True, kernels=K, timeout=(120, 400),
         canaries=[('single-frame-sdu-bypasses-window', _canary_window_bypass)],
         bounds='two ERTM processors: peer MPS 1..4, window 1..3, SDUs of 1..9 and 0..4 bytes, first three delivery choices symbolic (forward frame or acknowledgement first): both SDUs delivered once, in order, intact; TxSeq consecutive mod 64; unacknowledged I-frames <= window; SAR well-formed')
def ertm_two_sdus(mps: int, window: int, n1: int, n2: int, s1: int, s2: int, s3: int) -> bool:
    mps, window, n1, n2, s1, s2, s3 = C(mps, 1, 4), C(window, 1, 3), C(n1, 1, 9), C(n2, 0, 4), C(s1, 0, 1), C(s2, 0, 1), C(s3, 0, 1)
    with untraced():
        sdus = [bytes(range(1, 1 + n1))] + ([bytes(range(0x40, 0x40 + n2))] if n2 else [])
        return _run_pair(mps, window, sdus, [s1, s2, s3])


@harness(pre=['1 <= window <= 4 and 1 <= k <= 8 and 0 <= s1 <= 1 and 0 <= s2 <= 1'], family='ertm', kernels=K, timeout=(120, 400), grid={'mps': [2, 6]},
         bounds='a burst of 1..8 one-frame SDUs written before any acknowledgement returns, window 1..4: unacknowledged I-frames never exceed the window, all SDUs delivered in order')
def ertm_burst_of_small_sdus(window: int, k: int, s1: int, s2: int, mps: int) -> bool:
    window, k, s1, s2 = C(window, 1, 4), C(k, 1, 8), C(s1, 0, 1), C(s2, 0, 1)
    with untraced():
        return _run_pair(mps, window, [bytes([0x10 + i, 0x20 + i])[:min(2, mps)] for i in range(k)], [s1, s2])


@harness(pre=['64 <= n <= 140 and 1 <= window <= 63'], family='ertm', kernels=K, timeout=(120, 400), grid={'mps': [1, 2]},
         bounds='an SDU needing 64..140 segments (sequence numbers wrap at least once), window 1..63 (symbolic): TxSeq advance modulo 64 without gaps, the SDU is delivered intact')
def ertm_sequence_wrap(n: int, window: int, mps: int) -> bool:
    n, window = C(n, 64, 140), [1, 2, 7, 31, 62, 63][C(window % 6, 0, 5)]
    with untraced():
        return _run_pair(mps, window, [bytes((i * 7 + 1) % 256 for i in range(n * mps))], [])


# ------------------------------------------------------------------------------------------
# channel set-up for every pair of specs, then data
_MODES = [l2cap.TransmissionMode.BASIC, l2cap.TransmissionMode.ENHANCED_RETRANSMISSION]


@harness(pre=['1 <= window <= 2 and 1 <= na <= 6 and 1 <= nb <= 6 and 0 <= s1 <= 1 and 0 <= s2 <= 1'], family='ertm', twin=True, kernels=K, timeout=(120, 400), grid={'mps': [2, 3]},
         bounds='both ERTM processors of a channel write an SDU at the same moment (lengths 1..6 symbolic, window 1..2, first delivery choices symbolic): each SDU reaches the other side once and intact, each side never has more than `window` unacknowledged I-frames of ITS OWN')
def ertm_both_directions_at_once(window: int, na: int, nb: int, s1: int, s2: int, mps: int) -> bool:
    window, na, nb = C(window, 1, 2), C(na, 1, 6), C(nb, 1, 6)
    with detloop.running() as loop:
        spec = l2cap.ClassicChannelSpec(psm=0x1001, mode=l2cap.TransmissionMode.ENHANCED_RETRANSMISSION)
        a, b = _Chan(spec), _Chan(spec)
        pa = l2cap.EnhancedRetransmissionProcessor(a, peer_tx_window_size=window, peer_mps=mps)
        pb = l2cap.EnhancedRetransmissionProcessor(b, peer_tx_window_size=window, peer_mps=mps)
        sdu_a, sdu_b = bytes(range(1, na + 1)), bytes(range(101, 101 + nb))
        pa.send_sdu(sdu_a)
        pb.send_sdu(sdu_b)
        ia = ib = 0
        for s in [s1, s2] + [0, 1] * 200:
            if (s == 0 or ib >= len(b.out)) and ia < len(a.out):
                f = a.out[ia]
                ia += 1
                pb.on_pdu(f)
            elif ib < len(b.out):
                f = b.out[ib]
                ib += 1
                pa.on_pdu(f)
            else:
                break
            loop.run_ready()
        return b.sdus == [sdu_a] and a.sdus == [sdu_b] and not pa._pending_pdus and not pb._pending_pdus


class _CountingChan(_Chan):
    """records, for every frame handed to send_pdu, how many I-frames this side had been given before and including the
    PDU it is processing at that moment"""

    def __init__(self, spec):
        super().__init__(spec)
        self.rx_i, self.in_i, self.stamps = 0, False, []

    def send_pdu(self, pdu):
        super().send_pdu(pdu)
        self.stamps.append((self.rx_i, self.in_i))


def _give(chan, proc, f):
    is_i = not (f[0] & 1)
    chan.in_i = is_i
    if is_i:
        chan.rx_i += 1
    proc.on_pdu(f)
    chan.in_i = False


@harness(pre=['1 <= na <= 5 and 1 <= nb <= 5 and 0 <= s1 <= 1 and 0 <= s2 <= 1 and 0 <= s3 <= 1 and 0 <= s4 <= 1'], family='ertm', twin=True, kernels=K, timeout=(240, 500), grid={'mps': [1], 'wa': [1, 2, 3], 'wb': [1, 3]},
         bounds='both ERTM processors write an SDU of 1..5 one-byte segments at the same moment, windows 1..3 x {1, 3} per condition (when they differ one side has to queue I-frames while it keeps receiving), first four delivery choices symbolic: every frame put on the wire carries a ReqSeq equal to the number of I-frames its sender has received so far (modulo 64; the frame being processed may or may not be counted), so nothing is acknowledged early or late; each side keeps at most the window of unacknowledged I-frames; both SDUs arrive once and intact')
def ertm_reqseq_is_current(na: int, nb: int, s1: int, s2: int, s3: int, s4: int, mps: int, wa: int, wb: int) -> bool:
    na, nb = C(na, 1, 5), C(nb, 1, 5)
    with detloop.running() as loop:
        spec = l2cap.ClassicChannelSpec(psm=0x1001, mode=l2cap.TransmissionMode.ENHANCED_RETRANSMISSION)
        a, b = _CountingChan(spec), _CountingChan(spec)
        pa = l2cap.EnhancedRetransmissionProcessor(a, peer_tx_window_size=wa, peer_mps=mps)
        pb = l2cap.EnhancedRetransmissionProcessor(b, peer_tx_window_size=wb, peer_mps=mps)
        oa, ob = Observer(wa), Observer(wb)
        sdu_a, sdu_b = bytes(range(1, na + 1)), bytes(range(101, 101 + nb))
        pa.send_sdu(sdu_a)
        pb.send_sdu(sdu_b)
        ia = ib = 0
        for s in [s1, s2, s3, s4] + [0, 1] * 300:
            if (s == 0 or ib >= len(b.out)) and ia < len(a.out):
                f = a.out[ia]
                ia += 1
                if not oa.on_forward(f):
                    return False
                ob.on_backward(f)
                _give(b, pb, f)
            elif ib < len(b.out):
                f = b.out[ib]
                ib += 1
                if not ob.on_forward(f):
                    return False
                oa.on_backward(f)
                _give(a, pa, f)
            else:
                break
            loop.run_ready()
        for ch in (a, b):
            for f, (rx, in_i) in zip(ch.out, ch.stamps):
                req = f[1] & 0x3F
                if req != rx % 64 and not (in_i and req == (rx - 1) % 64):
                    return False
        return b.sdus == [sdu_a] and a.sdus == [sdu_b] and not pa._pending_pdus and not pb._pending_pdus


def _setup(loop, mode_a, fcs_a, mode_b, fcs_b, mtu_a, mtu_b, b_supports_fcs=True):
    F = l2cap.L2CAP_Information_Request.ExtendedFeatures
    w = Wire(handles=(1,), features=(None, None if b_supports_fcs else (F.FIXED_CHANNELS, F.ENHANCED_RETRANSMISSION_MODE)))
    accepted = []
    w.mgr[1].create_classic_server(l2cap.ClassicChannelSpec(psm=0x1001, mode=_MODES[mode_b], fcs_enabled=bool(fcs_b), mtu=mtu_b), handler=accepted.append)
    t = loop.create_task(w.mgr[0].create_classic_channel(w.conns[0][1], l2cap.ClassicChannelSpec(psm=0x1001, mode=_MODES[mode_a], fcs_enabled=bool(fcs_a), mtu=mtu_a)))
    ok = w.pump(loop)
    return w, t, accepted, ok


@harness(pre=['0 <= mode_a <= 1 and 0 <= mode_b <= 1 and 0 <= fcs_a <= 1 and 0 <= fcs_b <= 1 and 1 <= n <= 3 and 0 <= dirn <= 1'], family='setup', twin=True, kernels=K_SETUP, timeout=(120, 400),
         grid={'mtu_a': [48, 672], 'mtu_b': [672]},
         bounds='two classic channels set up through real managers for every pair of (mode in {Basic, ERTM}) x (FCS on/off) on each side (symbolic): both ends finish OPEN in the same mode, or the open fails and neither end keeps a channel (open or half-open) in its table; then 1..3 SDUs sent in either direction arrive once, in order, byte-identical (no stray FCS bytes, none cut)')
def classic_setup_and_data(mode_a: int, mode_b: int, fcs_a: int, fcs_b: int, n: int, dirn: int, mtu_a: int, mtu_b: int) -> bool:
    mode_a, mode_b, fcs_a, fcs_b, n, dirn = C(mode_a, 0, 1), C(mode_b, 0, 1), C(fcs_a, 0, 1), C(fcs_b, 0, 1), C(n, 1, 3), C(dirn, 0, 1)
    with untraced():
        with detloop.running() as loop:
            w, t, accepted, ok = _setup(loop, mode_a, fcs_a, mode_b, fcs_b, mtu_a, mtu_b)
            if not ok or not t.done():
                return False
            if t.exception() is not None:
                # both ends closed: neither side keeps the channel (in whatever state) in its table
                w.pump(loop)
                return not any(chans for m in w.mgr for chans in m.channels.values())
            a = t.result()
            if len(accepted) != 1:
                return False
            b = accepted[0]
            if a.state != a.State.OPEN or b.state != b.State.OPEN:
                return False
            if a.mode != b.mode:
                return False
            src, dst = (a, b) if dirn == 0 else (b, a)
            got = []
            dst.sink = got.append
            sent = [bytes(range(10 * i + 1, 10 * i + 1 + 5)) for i in range(n)]
            for s in sent:
                src.write(s)
            w.pump(loop)
            for _ in range(10):
                if not loop.advance():
                    break
                w.pump(loop)
            return [bytes(x) for x in got] == sent



@harness(pre=['0 <= mode <= 1 and 0 <= fcs_a <= 1'], family='setup', kernels=K_SETUP, timeout=(120, 400),
         bounds='the acceptor does not support the FCS option (its manager lacks the FCS_OPTION feature): set-up still ends with both ends open in the same mode or both closed (never an endless configuration exchange)')
def classic_setup_peer_without_fcs_support(mode: int, fcs_a: int) -> bool:
    mode, fcs_a = C(mode, 0, 1), C(fcs_a, 0, 1)
    with untraced():
        with detloop.running() as loop:
            w, t, accepted, ok = _setup(loop, mode, fcs_a, mode, 0, 672, 672, b_supports_fcs=False)
            if not ok or not t.done():
                return False
            if t.exception() is not None:
                return not any(ch.state == ch.State.OPEN for m in w.mgr for chans in m.channels.values() for ch in chans.values())
            a, b = t.result(), accepted[0]
            return a.state == a.State.OPEN and b.state == b.State.OPEN and a.mode == b.mode and a.fcs_enabled == b.fcs_enabled


_flags.int_format_placeholder = True
