"""C19 — SDP answers and AVDTP/AVCTP messages are reassembled exactly across PDUs.

Real sdp.Server (+ real sdp.Client wired to it over stub channels under the deterministic loop), real
avdtp.Protocol.send_message + avdtp.MessageAssembler, real avctp.MessageAssembler against a
spec-conformant fragmenting peer written here from AVCTP 1.4 section 6, real avdtp stream state machine.
"""
import struct

from vf.e1 import harness, untraced, concrete as C
from vf import flags as _flags
from vf import detloop

from bumble import core, sdp, avdtp, avctp

ASSUMPTIONS = [
    'SDP reassembly is claimed up to the client continuation watchdog only (DESIGN 3.0)',
    'SDP records are concrete-shaped; UUID membership, attribute value lengths, pattern and MTU are symbolic',
    'AVDTP/AVCTP MTUs are scaled (4..12): the fragmentation code is size-generic (no clamp) and the bounds contain every k*(mtu-3)+-1 boundary for k <= 3',
    'stub L2CAP channels deliver PDUs in order through the deterministic loop',
]
U = core.UUID.from_16_bits
DE = sdp.DataElement


def _B(*xs):
    return bytes(list(xs))


def _rep(x, n):
    """n copies of the (symbolic) byte x -- _rep(x, n) would realise x under CrossHair"""
    return bytes([x for _ in range(n)])


# ------------------------------------------------------------------------------------------
# SDP
class _Chan:
    def __init__(self, loop, mtu):
        self.loop, self.peer_mtu, self.sink, self.peer, self.sent = loop, mtu, None, None, []

    def write(self, pdu):
        pdu = bytes(pdu)
        self.sent.append(pdu)
        self.loop.call_soon(self.peer.sink, pdu)


def _wire(loop, server, mtu):
    """one client <-> server association over a pair of stub channels"""
    cs, sc = _Chan(loop, mtu), _Chan(loop, mtu)
    cs.peer, sc.peer = sc, cs
    client = sdp.Client(None)
    client.channel = cs
    cs.sink = client.on_pdu
    server.on_connection(sc)
    return client, cs, sc


def _record(handle, uuids, value_len, fill):
    return [
        sdp.ServiceAttribute(sdp.SDP_SERVICE_RECORD_HANDLE_ATTRIBUTE_ID, DE.unsigned_integer_32(handle)),
        sdp.ServiceAttribute(sdp.SDP_SERVICE_CLASS_ID_LIST_ATTRIBUTE_ID, DE.sequence([DE.uuid(u) for u in uuids])),
        sdp.ServiceAttribute(0x0100, DE.text_string(_rep(fill, value_len))),
    ]


UA, UB, UC = U(0x1101), U(0x1105), U(0x110A)


def _canary_any():
    def match_services(self, search_pattern):
        out = {}
        for handle, service in self.service_records.items():
            for uuid in search_pattern.value:
                if any(sdp.ServiceAttribute.is_uuid_in_value(uuid.value, a.value) for a in service):
                    out[handle] = service
                    break
        return out
    sdp.Server.match_services = match_services


@harness(pre=['0 <= m1 <= 7 and 0 <= m2 <= 7'], family='sdp-match', twin=True, canaries=[('match-any-uuid', _canary_any)],
         kernels=('bumble.sdp.Server.match_services', 'bumble.sdp.ServiceAttribute.is_uuid_in_value', 'bumble.sdp.Server.on_sdp_service_search_request', 'bumble.sdp.Client.search_services'),
         timeout=(90, 300), grids=[(('quick',), {'mtu': [48], 'pat': [1, 3, 5, 7]}), (('thorough',), {'mtu': [48, 15], 'pat': [1, 2, 3, 4, 5, 6, 7]})],
         bounds='two records whose membership of three UUIDs is symbolic (3 bits each), every non-empty pattern over the three UUIDs (one condition each): real Client.search_services returns exactly the records containing every pattern UUID; MTU 48 and 15 (one handle per response: continuation)')
def sdp_search_all_uuids(m1: int, m2: int, mtu: int, pat: int) -> bool:
    def pick(m):
        return [u for i, u in enumerate((UA, UB, UC)) if (m >> i) & 1]
    with detloop.running() as loop:
        server = sdp.Server(None)
        server.service_records = {0x10001: _record(0x10001, pick(m1), 2, 0x41), 0x10002: _record(0x10002, pick(m2), 2, 0x42)}
        client, cs, sc = _wire(loop, server, mtu)
        t = loop.create_task(client.search_services(pick(pat)))
        loop.run_ready()
        if not t.done() or t.exception() is not None:
            return False
        want = [h for h, m in ((0x10001, m1), (0x10002, m2)) if m & pat == pat]
        return sorted(t.result()) == want and all(len(p) <= mtu for p in sc.sent)


def _widen(u, width):
    """the same UUID written with 2, 4 or 16 bytes"""
    b = u.to_bytes()                       # little-endian, as bumble stores it
    if len(b) == width:
        return core.UUID.from_bytes(b)
    full = u.to_bytes(force_128=True)
    if width == 16:
        return core.UUID.from_bytes(full)
    return core.UUID.from_bytes(full[12:12 + width]) if width == 4 else core.UUID.from_bytes(full[12:14])


@harness(pre=['0 <= m1 <= 3 and 0 <= ws <= 2 and 0 <= wp <= 2'], family='sdp-match', twin=True, timeout=(90, 300),
         kernels=('bumble.sdp.Server.match_services', 'bumble.sdp.ServiceAttribute.is_uuid_in_value', 'bumble.core.UUID.__eq__'), grid={'pat': [1, 2, 3]},
         bounds='a record whose membership of two UUIDs is symbolic, the UUIDs STORED with 2, 4 or 16 bytes and the search pattern WRITTEN with 2, 4 or 16 bytes (both symbolic): the record is returned exactly when it contains every pattern UUID, whatever the widths')
def sdp_search_across_uuid_widths(m1: int, ws: int, wp: int, pat: int) -> bool:
    ws, wp = [2, 4, 16][C(ws, 0, 2)], [2, 4, 16][C(wp, 0, 2)]
    with detloop.running() as loop:
        stored = [_widen(u, ws) for i, u in enumerate((UA, UB)) if (m1 >> i) & 1]
        server = sdp.Server(None)
        server.service_records = {0x10001: _record(0x10001, stored, 2, 0x41)}
        client, cs, sc = _wire(loop, server, 48)
        t = loop.create_task(client.search_services([_widen(u, wp) for i, u in enumerate((UA, UB)) if (pat >> i) & 1]))
        loop.run_ready()
        if not t.done() or t.exception() is not None:
            return False
        return sorted(t.result()) == ([0x10001] if m1 & pat == pat else [])


@harness(pre=['0 <= lo <= 6 and 0 <= hi <= 6 and lo <= hi and 0 <= single <= 6'], family='sdp-attributes', twin=True, timeout=(90, 300), grid={'op': ['attr', 'search_attr'], 'form': [0, 1, 2]},
         kernels=('bumble.sdp.Server.get_service_attributes', 'bumble.sdp.Server.on_sdp_service_attribute_request', 'bumble.sdp.Client.get_attributes', 'bumble.sdp.Client.search_attributes'),
         bounds='a record with attribute ids 0, 1, 3, 4; the client asks for one id range [lo, hi] (0..6, symbolic; one-element ranges and bounds on, below and above existing ids), for a single id, or for a single id followed by a range above it: exactly the attributes whose id is selected come back, each once, in ascending order')
def sdp_attribute_id_ranges(lo: int, hi: int, single: int, op: str, form: int) -> bool:
    with detloop.running() as loop:
        server = sdp.Server(None)
        rec = _record(0x10001, [UA], 1, 0x41)
        rec[2] = sdp.ServiceAttribute(0x0003, DE.unsigned_integer_8(7))
        rec.append(sdp.ServiceAttribute(0x0004, DE.unsigned_integer_8(9)))
        server.service_records = {0x10001: rec}
        client, cs, sc = _wire(loop, server, 48)
        if form == 0:
            ids, want = [(lo, hi)], [i for i in (0, 1, 3, 4) if lo <= i <= hi]
        elif form == 1:
            ids, want = [single], [i for i in (0, 1, 3, 4) if i == single]
        else:
            if single >= lo:
                return True
            ids, want = [single, (lo, hi)], [i for i in (0, 1, 3, 4) if i == single or lo <= i <= hi]
        t = loop.create_task(client.get_attributes(0x10001, ids) if op == 'attr' else client.search_attributes([UA], ids))
        loop.run_ready()
        if not t.done() or t.exception() is not None:
            return False
        r = t.result()
        attrs = r if op == 'attr' else (r[0] if len(r) == 1 else ([] if not r else None))
        if attrs is None:
            return False
        return [a.id for a in attrs] == want


@harness(pre=['0 <= n <= 48 and 0 <= kind <= 2 and 0 <= depth <= 3'], family='sdp-attributes', twin=True, timeout=(120, 300), grid={'op': ['attr', 'search_attr']},
         kernels=('bumble.sdp.DataElementParser.parse_next', 'bumble.sdp.DataElementParser._list_from_bytes', 'bumble.sdp.DataElement.__bytes__', 'bumble.sdp.Client.get_attributes', 'bumble.sdp.Client.search_attributes'),
         bounds='an attribute whose value holds n = 0..48 sibling containers (empty sequences, empty alternatives, or sequences of one integer), wrapped 0..3 levels deep, fetched with an attribute / search-attribute transaction at MTU 672: the client returns a value equal to the stored one (siblings do not count towards the nesting limit)')
def sdp_many_sibling_containers(n: int, kind: int, depth: int, op: str) -> bool:
    n, kind, depth = C(n, 0, 48), C(kind, 0, 2), C(depth, 0, 3)
    with untraced():
        with detloop.running() as loop:
            one = (lambda: DE.sequence([])) if kind == 0 else (lambda: DE.alternative([])) if kind == 1 else (lambda: DE.sequence([DE.unsigned_integer_8(7)]))
            value = DE.sequence([one() for _ in range(n)])
            for _ in range(depth):
                value = DE.sequence([value])
            server = sdp.Server(None)
            server.service_records = {0x10001: _record(0x10001, [UA], 0, 0x41)}
            server.service_records[0x10001][2] = sdp.ServiceAttribute(0x0100, value)
            client, cs, sc = _wire(loop, server, 672)
            if op == 'attr':
                t = loop.create_task(client.get_attributes(0x10001, [(0, 0xFFFF)]))
            else:
                t = loop.create_task(client.search_attributes([UA], [(0, 0xFFFF)]))
            loop.run_ready()
            if not t.done() or t.exception() is not None:
                return False
            attrs = t.result() if op == 'attr' else (t.result()[0] if len(t.result()) == 1 else None)
            if attrs is None:
                return False
            got = {a.id: a.value for a in attrs}
            return sorted(got) == [0, 1, 0x100] and bytes(got[0x100]) == bytes(value) and got[0x100] == value


@harness(pre=['(0 <= l1 <= 1 or LO <= l1 <= HI) and 0 <= x <= 255'], family='sdp-continuation', twin=True, timeout=(90, 300),
         kernels=('bumble.sdp.Server.on_sdp_service_attribute_request', 'bumble.sdp.Server.on_sdp_service_search_attribute_request', 'bumble.sdp.Server.check_continuation',
                  'bumble.sdp.Server.get_next_response_payload', 'bumble.sdp.Client.get_attributes', 'bumble.sdp.Client.search_attributes'),
         grids=[(('quick',), {'mtu': [48], 'op': ['attr', 'search_attr'], 'LO': [13], 'HI': [18]}),
                (('thorough',), {'mtu': [48, 49, 64], 'op': ['attr', 'search_attr'], 'LO': [10, 50, 88], 'HI': [20, 60, 96]})],
         bounds='attribute and search-attribute transactions: attribute value length symbolic in {0,1} and windows around the multiples of the per-response capacity (13..18; thorough 10..20, 50..60, 88..96) (answers of 1..k continuation responses incl. exact multiples of the per-response capacity), content byte symbolic, MTU 48 (thorough 49, 64): reassembled value equals the stored one, every response <= MTU')
def sdp_attributes_reassembled(l1: int, x: int, mtu: int, op: str, LO: int, HI: int) -> bool:
    with detloop.running() as loop:
        server = sdp.Server(None)
        server.service_records = {0x10001: _record(0x10001, [UA], 0, 0x41)}
        server.service_records[0x10001][2] = sdp.ServiceAttribute(0x0100, DE.text_string(_rep(x, l1)))
        client, cs, sc = _wire(loop, server, mtu)
        if op == 'attr':
            t = loop.create_task(client.get_attributes(0x10001, [(0, 0xFFFF)]))
        else:
            t = loop.create_task(client.search_attributes([UA], [(0, 0xFFFF)]))
        loop.run_ready()
        if not t.done() or t.exception() is not None:
            return False
        attrs = t.result() if op == 'attr' else (t.result()[0] if len(t.result()) == 1 else None)
        if attrs is None or any(len(p) > mtu for p in sc.sent):
            return False
        got = {a.id: a.value for a in attrs}
        return sorted(got) == [0, 1, 0x100] and got[0x100].value == _rep(x, l1)


@harness(pre=['0 <= order <= 5 and 0 <= x <= 255 and 0 <= y <= 255'], family='sdp-clients', timeout=(60, 200), grid={'mtu': [48]},
         kernels=('bumble.sdp.Server.on_connection', 'bumble.sdp.Server.on_pdu', 'bumble.sdp.Server.send_response'),
         bounds='two clients connected at the same time from different peers, each running one attribute transaction that needs continuation, their PDUs interleaved by a symbolic order-preserving schedule: each client gets its own complete answer')
def sdp_two_clients(order: int, x: int, y: int, mtu: int) -> bool:
    with detloop.running() as loop:
        server = sdp.Server(None)
        server.service_records = {0x10001: _record(0x10001, [UA], 60, 0x41), 0x10002: _record(0x10002, [UB], 60, 0x42)}
        server.service_records[0x10001][2] = sdp.ServiceAttribute(0x0100, DE.text_string(_rep(x, 60)))
        server.service_records[0x10002][2] = sdp.ServiceAttribute(0x0100, DE.text_string(_rep(y, 60)))
        # each client has its own channel; the server is told about each connection
        c1, cs1, sc1 = _wire(loop, server, mtu)
        c2, cs2, sc2 = _wire(loop, server, mtu)
        # requests are held back and released according to the schedule
        held = {1: [], 2: []}
        for n, (cs, sc) in ((1, (cs1, sc1)), (2, (cs2, sc2))):
            def hold(pdu, n=n, sc=sc):
                held[n].append((sc, bytes(pdu)))
            cs.write = hold
        t1 = loop.create_task(c1.get_attributes(0x10001, [(0, 0xFFFF)]))
        t2 = loop.create_task(c2.get_attributes(0x10002, [(0, 0xFFFF)]))
        loop.run_ready()
        sched = [[1, 1, 2, 2], [1, 2, 1, 2], [1, 2, 2, 1], [2, 1, 1, 2], [2, 1, 2, 1], [2, 2, 1, 1]][order] + [1, 2, 1, 2, 1, 2]
        for who in sched:
            if held[who]:
                sc, pdu = held[who].pop(0)
                # the PDU arrives on that client's server-side channel
                sc.sink(pdu)
                loop.run_ready()
        if not (t1.done() and t2.done()) or t1.exception() or t2.exception():
            return False
        v1 = {a.id: a.value for a in t1.result()}.get(0x100)
        v2 = {a.id: a.value for a in t2.result()}.get(0x100)
        return v1 is not None and v2 is not None and v1.value == _rep(x, 60) and v2.value == _rep(y, 60)


# ------------------------------------------------------------------------------------------
# AVDTP fragmentation / reassembly
class _AvChan:
    def __init__(self, mtu):
        self.peer_mtu, self.out = mtu, []

    def write(self, pdu):
        self.out.append(bytes(pdu))


class _Proto:
    PacketType = avdtp.Protocol.PacketType

    def __init__(self, mtu):
        self.l2cap_channel = _AvChan(mtu)


class _Msg:
    def __init__(self, payload):
        self.payload = payload
        self.message_type = avdtp.Message.MessageType.COMMAND
        self.signal_identifier = avdtp.AVDTP_DISCOVER

    def __str__(self):
        return 'msg'


def _assembler():
    got = []
    asm = avdtp.MessageAssembler(lambda tl, m: None)
    asm.on_message_complete = lambda: (got.append((asm.transaction_label, int(asm.signal_identifier), bytes(asm.message or b''))), asm.reset())
    return asm, got


def _canary_avdtp_end_label():
    orig = avdtp.Protocol.send_message

    def send_message(self, transaction_label, message):
        max_fragment_size = self.l2cap_channel.peer_mtu - 3
        payload = message.payload
        if len(payload) + 2 <= self.l2cap_channel.peer_mtu:
            return orig(self, transaction_label, message)
        packet_type = self.PacketType.START_PACKET
        done = False
        while not done:
            fb = transaction_label << 4 | packet_type << 2 | message.message_type
            if packet_type == self.PacketType.START_PACKET:
                header = bytes([fb, message.signal_identifier, (max_fragment_size - 1 + len(payload)) // max_fragment_size])
            else:
                header = bytes([fb])
            self.l2cap_channel.write(header + payload[:max_fragment_size])
            payload = payload[max_fragment_size:]
            if payload:
                packet_type = self.PacketType.CONTINUE_PACKET if len(payload) >= max_fragment_size else self.PacketType.END_PACKET
            else:
                done = True
    avdtp.Protocol.send_message = send_message


@harness(pre=['0 <= label <= 15 and 0 <= x <= 255 and 0 <= n <= 3 * (mtu - 3) + 2'], family='avdtp-frag', twin=True, timeout=(60, 200),
         kernels=('bumble.avdtp.Protocol.send_message', 'bumble.avdtp.MessageAssembler.on_pdu'), canaries=[('exact-multiple-labelled-continue', _canary_avdtp_end_label)],
         grids=[(('quick',), {'mtu': [5], 'n': [0, 1, 2, 3, 4, 5, 6, 7, 8]}), (('quick',), {'mtu': [8], 'n': [5, 6, 7, 10, 11, 15, 16]}), (('thorough',), {'mtu': [4, 5, 6, 7, 8, 9, 12]})],
         bounds='AVDTP signalling message of 0..3*(mtu-3)+2 bytes (length per condition in the quick tier, symbolic in the thorough tier; content byte and label symbolic) sent with peer MTU 4..12 (scaled) and reassembled: every PDU <= MTU, message identical, delivered once')
def avdtp_roundtrip(label: int, n: int, x: int, mtu: int) -> bool:
    p = _Proto(mtu)
    payload = _rep(x, n)
    avdtp.Protocol.send_message(p, label, _Msg(payload))
    asm, got = _assembler()
    for pdu in p.l2cap_channel.out:
        if len(pdu) > mtu:
            return False
        asm.on_pdu(pdu)
    return got == [(label, int(avdtp.AVDTP_DISCOVER), payload)]


@harness(pre=['0 <= x <= 255 and 0 <= victim <= 3 and 0 <= kind <= 2'], family='avdtp-frag', timeout=(60, 200), grid={'mtu': [5], 'n': [5, 7]},
         kernels=('bumble.avdtp.Protocol.send_message', 'bumble.avdtp.MessageAssembler.on_pdu'),
         bounds='a fragmented AVDTP message with one fragment (symbolic index) dropped / duplicated / re-labelled, followed by a second well-formed fragmented message: the second message is delivered intact exactly once, the broken one is never delivered when a fragment is missing, and nothing damaged (a hole, repeated or foreign bytes) is ever delivered')
def avdtp_broken_sequence_costs_one_message(x: int, victim: int, kind: int, mtu: int, n: int) -> bool:
    p = _Proto(mtu)
    avdtp.Protocol.send_message(p, 3, _Msg(_rep(x, n)))
    first = list(p.l2cap_channel.out)
    if victim >= len(first):
        return True
    if kind == 0:
        if victim == 0 and len(first) > 1:
            pass
        del first[victim]
    elif kind == 1:
        first.insert(victim, first[victim])
    else:
        first[victim] = bytes([first[victim][0] ^ 0x10]) + first[victim][1:]      # another transaction label
    p2 = _Proto(mtu)
    second_payload = _rep(255 - x, n)
    avdtp.Protocol.send_message(p2, 5, _Msg(second_payload))
    asm, got = _assembler()
    for pdu in first + p2.l2cap_channel.out:
        try:
            asm.on_pdu(pdu)
        except Exception:
            pass
    good = (5, int(avdtp.AVDTP_DISCOVER), second_payload)
    intact = (3, int(avdtp.AVDTP_DISCOVER), _rep(x, n))
    broken_delivered = any(g == intact for g in got) and kind == 0
    # whatever is delivered is a message that was really sent: never a damaged one (a hole, repeated or foreign bytes)
    damaged = any(g != good and g != intact for g in got)
    return got.count(good) == 1 and got[-1] == good and not broken_delivered and not damaged


# ------------------------------------------------------------------------------------------
# AVCTP: a spec-conformant fragmenting peer (AVCTP 1.4, 6.1: PID in SINGLE and START packets only)
def avctp_fragments(label, is_command, pid, payload, mtu):
    cr = 0 if is_command else 1
    if len(payload) + 3 <= mtu:
        return [bytes([label << 4 | 0 << 2 | cr << 1, pid >> 8, pid & 0xFF]) + payload]
    first = payload[:mtu - 4]
    rest = payload[mtu - 4:]
    chunks = [rest[i:i + mtu - 1] for i in range(0, len(rest), mtu - 1)]
    out = [bytes([label << 4 | 1 << 2 | cr << 1, 1 + len(chunks), pid >> 8, pid & 0xFF]) + first]
    for i, c in enumerate(chunks):
        t = 3 if i == len(chunks) - 1 else 2
        out.append(bytes([label << 4 | t << 2 | cr << 1]) + c)
    return out


@harness(pre=['0 <= label <= 15 and 0 <= cr <= 1 and 0 <= pid <= 0xFFFF and 0 <= n <= 14 and 0 <= x <= 255'], family='avctp', twin=True, timeout=(60, 200),
         kernels=('bumble.avctp.MessageAssembler.on_pdu',), grid={'mtu': [6, 8]},
         bounds='AVCTP message of 0..14 bytes fragmented by a spec-conformant peer for MTU 6/8 (1..4 packets): reassembled payload, PID, label and C/R identical, delivered once')
def avctp_conformant_peer(label: int, cr: int, pid: int, n: int, x: int, mtu: int) -> bool:
    payload = _rep(x, n)
    got = []
    asm = avctp.MessageAssembler(lambda tl, is_cmd, ipid, pd, pl: got.append((tl, is_cmd, pd, bytes(pl))))
    for pdu in avctp_fragments(label, cr == 0, pid, payload, mtu):
        asm.on_pdu(pdu)
    return got == [(label, cr == 0, pid, payload)]


@harness(pre=['0 <= x0 <= 255 and 0 <= x1 <= 255 and 0 <= x2 <= 255 and 0 <= x3 <= 255'], family='avctp', grid={'n': [1, 2, 4]},
         kernels=('bumble.avctp.MessageAssembler.on_pdu',),
         bounds='AVCTP: an arbitrary (symbolic) packet of 1..4 bytes, then a well-formed single packet: the single packet is delivered')
def avctp_garbage_then_single(x0: int, x1: int, x2: int, x3: int, n: int) -> bool:
    got = []
    asm = avctp.MessageAssembler(lambda tl, is_cmd, ipid, pd, pl: got.append((tl, is_cmd, pd, bytes(pl))))
    try:
        asm.on_pdu(_B(x0, x1, x2, x3)[:n])
    except Exception:
        pass
    k = len(got)
    asm.on_pdu(bytes([5 << 4, 0x11, 0x0E, 0xAA, 0xBB]))
    return len(got) == k + 1 and got[-1] == (5, True, 0x110E, b'\xaa\xbb')


_flags.int_format_placeholder = True     # log f-strings with symbolic ints are not the subject here (see vf/flags.py)


# ------------------------------------------------------------------------------------------ AVDTP stream state machine
from bumble import a2dp as _a2dp, utils as _utils


def _sbc(sink):
    I = _a2dp.SbcMediaCodecInformation
    if sink:
        info = I(sampling_frequency=I.SamplingFrequency.SF_48000 | I.SamplingFrequency.SF_44100, channel_mode=I.ChannelMode.MONO | I.ChannelMode.JOINT_STEREO,
                 block_length=I.BlockLength.BL_8 | I.BlockLength.BL_16, subbands=I.Subbands.S_4 | I.Subbands.S_8, allocation_method=I.AllocationMethod.LOUDNESS | I.AllocationMethod.SNR,
                 minimum_bitpool_value=2, maximum_bitpool_value=53)
    else:
        info = I(sampling_frequency=I.SamplingFrequency.SF_44100, channel_mode=I.ChannelMode.JOINT_STEREO, block_length=I.BlockLength.BL_16, subbands=I.Subbands.S_8,
                 allocation_method=I.AllocationMethod.LOUDNESS, minimum_bitpool_value=2, maximum_bitpool_value=53)
    return avdtp.MediaCodecCapabilities(media_type=avdtp.MediaType.AUDIO, media_codec_type=_a2dp.CodecType.SBC, media_codec_information=info)


class _SChan(_utils.EventEmitter):
    """what avdtp needs from an l2cap.ClassicChannel; writes reach the peer's sink one loop turn later, in order"""
    EVENT_OPEN, EVENT_CLOSE = 'open', 'close'

    def __init__(self, loop, mtu=672):
        super().__init__()
        self.loop, self.peer, self.sink, self.peer_mtu, self.connection = loop, None, None, mtu, None

    def write(self, data):
        data = bytes(data)
        self.loop.call_soon(lambda: self.peer.sink and self.peer.sink(data))

    async def disconnect(self):
        self.emit('close')
        self.peer.emit('close')


class _SConn:
    def __init__(self, loop, other):
        self.loop, self.other = loop, other

    async def create_l2cap_channel(self, spec):
        a, b = _SChan(self.loop), _SChan(self.loop)
        a.peer, b.peer = b, a
        self.other().on_l2cap_connection(b)
        a.emit('open')
        b.emit('open')
        return a


async def _no_packets():
    return
    yield


def _fsm_settle(loop, n=5000):
    for _ in range(n):
        loop.run_ready()
        if not loop.ready and not loop.advance():
            return True
    return False


FSM_OPS = ['configure1', 'configure2', 'open1', 'start1', 'stop1', 'close1', 'open2', 'start2', 'close2']


def _fsm_run(program):
    """None if the real source/sink pair follows the single-owner stream state machine for this program, else what differs"""
    S = avdtp.State
    with detloop.running() as loop:
        ca, cb = _SChan(loop), _SChan(loop)
        ca.peer, cb.peer = cb, ca
        pa, pb = avdtp.Protocol(ca), avdtp.Protocol(cb)
        ca.connection, cb.connection = _SConn(loop, lambda: pb), _SConn(loop, lambda: pa)
        sink = pb.add_sink(_sbc(True))
        srcs = [pa.add_source(_sbc(False), avdtp.MediaPacketPump(_no_packets())) for _ in range(2)]
        t = loop.create_task(pa.discover_remote_endpoints())
        _fsm_settle(loop)
        proxy = list(t.result())[0]
        streams, model, owner = [None, None], [S.IDLE, S.IDLE], None
        for op in program:
            name, i = FSM_OPS[op][:-1], int(FSM_OPS[op][-1]) - 1
            st = streams[i]
            if name == 'configure':
                co = pa.create_stream(srcs[i], proxy)
            elif st is None:
                continue
            else:
                co = {'open': st.open, 'start': st.start, 'stop': st.stop, 'close': st.close}[name]()
            t = loop.create_task(co)
            if not _fsm_settle(loop) or not t.done():
                return f'{FSM_OPS[op]} never ends'
            ok = t.exception() is None
            legal = False
            if name == 'configure':
                legal = model[i] == S.IDLE and owner is None
                if legal:
                    model[i], owner = S.CONFIGURED, i
                if ok:
                    streams[i] = t.result()
                elif streams[i] is None:
                    streams[i] = pa.streams.get(srcs[i].seid)
            elif name == 'open':
                legal = model[i] == S.CONFIGURED and owner == i
                if legal:
                    model[i] = S.OPEN
            elif name == 'start':
                legal = model[i] in (S.CONFIGURED, S.OPEN) and owner == i
                if legal:
                    model[i] = S.STREAMING
            elif name == 'stop':
                legal = model[i] == S.STREAMING and owner == i
                if legal:
                    model[i] = S.OPEN
            elif name == 'close':
                legal = model[i] in (S.OPEN, S.STREAMING) and owner == i
                if legal:
                    model[i], owner = S.IDLE, None
            if ok != legal:
                return f'{FSM_OPS[op]} {"accepted" if ok else "refused"}, the state machine says {"legal" if legal else "refused"}'
            for j in (0, 1):
                if streams[j] is not None and streams[j].state != model[j]:
                    return f'after {FSM_OPS[op]}: initiator stream {j + 1} is {streams[j].state.name}, expected {model[j].name}'
            want = model[owner] if owner is not None else S.IDLE
            have = sink.stream.state if sink.stream else S.IDLE
            if have != want:
                return f'after {FSM_OPS[op]}: the sink is {have.name}, the source side {want.name}'
            if bool(sink.in_use) != (owner is not None):
                return f'after {FSM_OPS[op]}: sink.in_use = {sink.in_use}'
        return None


def _canary_configured_not_in_use():
    avdtp.LocalStreamEndPoint.in_use = property(lambda self: 1 if (self.stream and self.stream.state not in (avdtp.State.IDLE, avdtp.State.CONFIGURED)) else 0)


@harness(pre=['0 <= b <= 8 and 0 <= c <= 8 and 0 <= d <= 8'], family='avdtp-streams', twin=True, timeout=(150, 400), grids=[(('quick',), {'a': list(range(9)), 'e': [9]}), (('thorough',), {'a': list(range(9)), 'e': [9, 0, 2, 3, 5]})],
         kernels=('bumble.avdtp.Stream.configure', 'bumble.avdtp.Stream.open', 'bumble.avdtp.Stream.start', 'bumble.avdtp.Stream.stop', 'bumble.avdtp.Stream.close', 'bumble.avdtp.Protocol.on_set_configuration_command',
                  'bumble.avdtp.Stream.on_open_command', 'bumble.avdtp.Stream.on_start_command', 'bumble.avdtp.Stream.on_suspend_command', 'bumble.avdtp.Stream.on_close_command', 'bumble.avdtp.LocalStreamEndPoint.in_use'),
         canaries=[('configured-endpoint-not-in-use', _canary_configured_not_in_use)],
         bounds='two real avdtp.Protocol instances (two local sources, one remote sink) over stub channels: every program of 4 (thorough: a fifth) stream procedures from {configure, open, start, suspend, close} x {stream 1, stream 2}: a procedure is accepted exactly when legal for the single-owner stream state machine, a refused one changes nothing, source-side stream states, the sink state and sink.in_use agree after every step')
def avdtp_stream_fsm(a: int, b: int, c: int, d: int, e: int) -> bool:
    b, c, d = C(b, 0, 8), C(c, 0, 8), C(d, 0, 8)
    with untraced():
        return _fsm_run([a, b, c, d] + ([e] if e < 9 else [])) is None


def _acceptor_run(prefix, cmd):
    """bring the pair to CONFIGURED / OPEN / STREAMING with legal procedures, then send one raw signalling command with
    Protocol.open/start/suspend/close (no initiator-side guard): None if the acceptor accepts it exactly when it is legal
    in its state and a refused command leaves its state alone, else what differs"""
    S = avdtp.State
    with detloop.running() as loop:
        ca, cb = _SChan(loop), _SChan(loop)
        ca.peer, cb.peer = cb, ca
        pa, pb = avdtp.Protocol(ca), avdtp.Protocol(cb)
        ca.connection, cb.connection = _SConn(loop, lambda: pb), _SConn(loop, lambda: pa)
        sink = pb.add_sink(_sbc(True))
        src = pa.add_source(_sbc(False), avdtp.MediaPacketPump(_no_packets()))
        t = loop.create_task(pa.discover_remote_endpoints())
        _fsm_settle(loop)
        proxy = list(t.result())[0]
        t = loop.create_task(pa.create_stream(src, proxy))
        _fsm_settle(loop)
        stream = t.result()
        for step in [stream.open, stream.start][:prefix]:
            t = loop.create_task(step())
            _fsm_settle(loop)
            if t.exception() is not None:
                return 'legal prefix refused'
        before = sink.stream.state
        if before != [S.CONFIGURED, S.OPEN, S.STREAMING][prefix]:
            return f'sink is {before.name} after the prefix'
        seid = sink.seid
        co = [lambda: pa.open(seid), lambda: pa.start([seid]), lambda: pa.suspend([seid]), lambda: pa.close(seid)][cmd]()
        t = loop.create_task(co)
        if not _fsm_settle(loop) or not t.done():
            return 'the command is never answered'
        want_cls = [avdtp.Open_Response, avdtp.Start_Response, avdtp.Suspend_Response, avdtp.Close_Response][cmd]
        accepted = t.exception() is None and isinstance(t.result(), want_cls)
        legal = [before == S.CONFIGURED, before == S.OPEN, before == S.STREAMING, before in (S.OPEN, S.STREAMING)][cmd]
        if accepted != legal:
            return f'{["open", "start", "suspend", "close"][cmd]} in {before.name} {"accepted" if accepted else "refused"}'
        after = sink.stream.state if sink.stream else S.IDLE
        if not accepted and after != before:
            return f'refused command moved the sink from {before.name} to {after.name}'
        if accepted and after != [S.OPEN, S.STREAMING, S.OPEN, S.IDLE][cmd] and not (cmd == 3 and after == S.CLOSING):
            return f'accepted command left the sink in {after.name}'
        return None


@harness(pre=['0 <= prefix <= 2 and 0 <= cmd <= 3'], family='avdtp-streams', twin=True, timeout=(150, 400),
         kernels=('bumble.avdtp.Protocol.on_open_command', 'bumble.avdtp.Protocol.on_start_command', 'bumble.avdtp.Protocol.on_suspend_command', 'bumble.avdtp.Protocol.on_close_command',
                  'bumble.avdtp.Stream.on_open_command', 'bumble.avdtp.Stream.on_start_command', 'bumble.avdtp.Stream.on_suspend_command', 'bumble.avdtp.Stream.on_close_command'),
         bounds='acceptor side on its own: the sink is brought to CONFIGURED, OPEN or STREAMING, then ONE signalling command (Open, Start, Suspend, Close) is sent with Protocol.open/start/suspend/close, which has no initiator-side state guard: the acceptor accepts it exactly when the AVDTP state machine allows it in that state, a refused command is answered and leaves the sink state unchanged, an accepted one moves it to the state the procedure leads to')
def avdtp_acceptor_guards_its_state(prefix: int, cmd: int) -> bool:
    prefix, cmd = C(prefix, 0, 2), C(cmd, 0, 3)
    with untraced():
        return _acceptor_run(prefix, cmd) is None


def e2_obligations(tier):
    """wide-range verification conditions over the AST of the real source (vf/e2.py, vf/e2k.py)"""
    from vf import e2k
    return [e2k.sdp_next_payload(), e2k.avdtp_send_iteration()]
