"""C13 — pairing ends the same way on both sides, with honest authentication.

Kernel level (symbolic): Session.decide_pairing_method against an independent transcription of Core
Vol 3 Part H Table 2.8 for both roles; key-role agreement of Session.on_pairing -> key store ->
Device.encrypt / Device.get_long_term_key; authenticated flag.  System level: two complete stacks
(Device, Host, Controller, LocalLink) pair under a deterministic environment for every IO-capability pair
x {legacy, SC} x MITM x bonding x user answers; the configuration is split by solver forks and each
path runs the real code concretely (the cryptography back end is behind FFI).
"""
import asyncio

from vf.e1 import harness, untraced, concrete as C
from vf import flags as _flags
from vf import detloop, detenv

from bumble import smp, hci, device as bdev, controller as ctl, link as lnk, host as bhost
from bumble.keys import MemoryKeyStore, PairingKeys
from bumble.pairing import PairingConfig, PairingDelegate
from bumble.core import PhysicalTransport

ASSUMPTIONS = [
    'OOB counts as MITM-protected; keys are compared by value (DESIGN 3.0)',
    'system level: deterministic clock/randomness (vf/detenv.py), so the FFI crypto sees concrete inputs; every path is one concrete configuration chosen by solver forks',
    'key-distribution masks: default, plus three asymmetric initiator offers (system_pairing_key_distribution); delays beyond FIFO order are outside',
    'Table 2.8 transcription in this file is the oracle for the association model',
]
K = ('bumble.smp.Session.decide_pairing_method', 'bumble.smp.Session.on_pairing', 'bumble.smp.Manager.on_pairing', 'bumble.device.Device.encrypt',
     'bumble.device.Device.get_long_term_key', 'bumble.smp.Session.check_expected_value', 'bumble.smp.Session.on_smp_pairing_random_command',
     'bumble.smp.Session.on_smp_pairing_dhkey_check_command')
JW, NC, PK = smp.PairingMethod.JUST_WORKS, smp.PairingMethod.NUMERIC_COMPARISON, smp.PairingMethod.PASSKEY
DO, DYN, KO, NIO, KD = 0, 1, 2, 3, 4


def table(i, r):
    """Core Vol 3 Part H Table 2.8 -> (legacy, sc); entries JW / NC / ('PK', initiator displays, responder displays)"""
    if i == NIO or r == NIO:
        return (JW, JW)
    if i == DO:
        if r in (DO, DYN):
            return (JW, JW)
        return (('PK', True, False),) * 2
    if i == DYN:
        if r == DO:
            return (JW, JW)
        if r == DYN:
            return (JW, NC)
        if r == KO:
            return (('PK', True, False),) * 2
        return (('PK', True, False), NC)
    if i == KO:
        if r == KO:
            return (('PK', False, False),) * 2
        return (('PK', False, True),) * 2
    if r == DO:
        return (('PK', False, True),) * 2
    if r == DYN:
        return (('PK', False, True), NC)
    if r == KO:
        return (('PK', True, False),) * 2
    return (('PK', True, False), NC)


class _Conn:
    transport = PhysicalTransport.LE


def _decide(is_initiator, sc, mitm, auth_req, i, r):
    s = smp.Session.__new__(smp.Session)
    s.connection = _Conn()
    s.sc, s.mitm, s.is_initiator = sc, mitm, is_initiator
    s.pairing_method, s.passkey_display = JW, False
    s.pairing_config = PairingConfig(sc=sc, mitm=mitm)
    smp.Session.decide_pairing_method(s, auth_req, i, r)
    return s.pairing_method, s.passkey_display


def _canary_table_entry():
    smp.Session.PAIRING_METHODS[smp.SMP_KEYBOARD_DISPLAY_IO_CAPABILITY][smp.SMP_DISPLAY_ONLY_IO_CAPABILITY] = (PK, True, False)


@harness(pre=['0 <= i <= 4 and 0 <= r <= 4'], family='association-model', twin=True, kernels=K, canaries=[('one-table-entry-swapped', _canary_table_entry)],
         bounds='association model: initiator IO x responder IO x SC x MITM on each side (all symbolic, exhaustive): both roles choose the method Table 2.8 prescribes, with complementary display/input')
def association_model(sc: bool, mitm_local: bool, mitm_peer: bool, i: int, r: int) -> bool:
    sc = True if sc else False
    mitm_local = True if mitm_local else False
    mitm_peer = True if mitm_peer else False
    mi, di = _decide(True, sc, mitm_local, smp.AuthReq.MITM if mitm_peer else 0, i, r)
    mr, dr = _decide(False, sc, mitm_peer, smp.AuthReq.MITM if mitm_local else 0, i, r)
    if mi != mr:
        return False
    if not (mitm_local or mitm_peer):
        return mi == JW
    want = table(i, r)[1 if sc else 0]
    if isinstance(want, tuple):
        return mi == PK and di == want[1] and dr == want[2]
    return mi == want


# ------------------------------------------------------------------------------------------
class _Addr:
    address_type = hci.AddressType.RANDOM_DEVICE

    def __str__(self):
        return 'AA:BB'


class _LConn:
    transport = PhysicalTransport.LE
    peer_address = _Addr()
    handle = 1
    is_encrypted = True
    EVENT_CONNECTION_ENCRYPTION_CHANGE = 'connection_encryption_change'
    EVENT_CONNECTION_ENCRYPTION_FAILURE = 'connection_encryption_failure'

    def __init__(self, role):
        self.role = role

    def cancel_on_disconnection(self, aw):
        return asyncio.ensure_future(aw) if asyncio.iscoroutine(aw) else aw

    def on(self, *a):
        pass

    def remove_listener(self, *a):
        pass

    def listeners(self, ev):
        return []


class _Mgr:
    def __init__(self):
        self.stored = None

    async def on_pairing(self, session, addr, keys):
        self.stored = keys

    def get_long_term_key(self, connection, rand, ediv):
        return None


def _session_keys(loop, is_initiator, sc, method, ltk_self, ltk_peer, ediv_self, ediv_peer):
    s = smp.Session.__new__(smp.Session)
    s.completed, s.pairing_result, s.peer_bd_addr, s.ctkd_task = False, None, None, None
    s.connection = _LConn(hci.Role.CENTRAL if is_initiator else hci.Role.PERIPHERAL)
    s.pairing_method, s.sc, s.is_initiator = method, sc, is_initiator
    s.ltk, s.ltk_ediv, s.ltk_rand = ltk_self, ediv_self, bytes(8)
    s.peer_ltk, s.peer_ediv, s.peer_rand = ltk_peer, ediv_peer, bytes(8)
    s.peer_identity_resolving_key = s.peer_signature_key = s.link_key = None
    s.manager = _Mgr()
    t = loop.create_task(s.on_pairing())
    loop.run_ready()
    assert t.done() and not t.exception(), t
    return s.manager.stored


class _Stop(Exception):
    pass


class _Dev:
    """what Device.encrypt / Device.get_long_term_key need"""

    def __init__(self, keys, conn):
        self.keystore = MemoryKeyStore()
        self.keystore.all_keys[str(conn.peer_address)] = keys
        self.smp_manager = _Mgr()
        self.conn = conn
        self.sent = []

    def lookup_connection(self, handle):
        return self.conn

    async def send_async_command(self, cmd):
        self.sent.append(cmd)
        raise _Stop()


_METHODS = [JW, PK, NC, smp.PairingMethod.OOB]


def _canary_swapped_roles():
    orig = smp.Session.on_pairing

    async def on_pairing(self):
        real = self.manager.on_pairing

        async def swap(session, addr, keys):
            if not session.is_initiator and keys.ltk_central is not None:
                keys.ltk_central, keys.ltk_peripheral = keys.ltk_peripheral, keys.ltk_central
            await real(session, addr, keys)
        self.manager.on_pairing = swap
        await orig(self)
    smp.Session.on_pairing = on_pairing


@harness(pre=['0 <= a0 <= 255 and 0 <= b0 <= 255 and a0 != b0 and 0 <= m <= 3 and 0 <= ea <= 0xFFFF and 0 <= eb <= 0xFFFF'], family='key-roles', twin=True, kernels=K,
         canaries=[('responder-stores-ltks-swapped', _canary_swapped_roles)], timeout=(60, 200),
         bounds='two Session.on_pairing results (initiator A, responder B; legacy with distinct symbolic LTKs/EDIVs, or SC) stored in two key stores; on a later connection in the same or swapped roles the central\'s Device.encrypt and the peripheral\'s Device.get_long_term_key select the same key; authenticated flag = (method != Just Works) on every stored key; method symbolic')
def key_role_agreement(sc: bool, swapped: bool, a0: int, b0: int, m: int, ea: int, eb: int) -> bool:
    sc = True if sc else False
    swapped = True if swapped else False
    method = _METHODS[C(m, 0, 3)]
    with detloop.running() as loop:
        ltk_a, ltk_b = bytes([a0 for _ in range(16)]), bytes([b0 for _ in range(16)])
        if sc:
            keys_a = _session_keys(loop, True, True, method, ltk_a, None, 0, 0)
            keys_b = _session_keys(loop, False, True, method, ltk_a, None, 0, 0)
        else:
            keys_a = _session_keys(loop, True, False, method, ltk_a, ltk_b, ea, eb)
            keys_b = _session_keys(loop, False, False, method, ltk_b, ltk_a, eb, ea)
        for ks in (keys_a, keys_b):
            for k in (ks.ltk, ks.ltk_central, ks.ltk_peripheral):
                if k is not None and k.authenticated != (method != JW):
                    return False
        central_keys, periph_keys = (keys_b, keys_a) if swapped else (keys_a, keys_b)
        cdev = _Dev(central_keys, _LConn(hci.Role.CENTRAL))
        loop.create_task(bdev.Device.encrypt(cdev, cdev.conn))
        loop.run_ready()
        if not cdev.sent:
            return False
        cmd = cdev.sent[0]
        pdev = _Dev(periph_keys, _LConn(hci.Role.PERIPHERAL))
        t2 = loop.create_task(bdev.Device.get_long_term_key(pdev, 1, cmd.random_number, cmd.encrypted_diversifier))
        loop.run_ready()
        return t2.done() and t2.exception() is None and t2.result() == cmd.long_term_key


# ------------------------------------------------------------------------------------------
# system level: two complete stacks
def _settle(loop, n=3000):
    for _ in range(n):
        loop.run_ready()
        if not loop.ready and not loop.advance():
            break


# ------------------------------------------------------------------------------------------
# a later pairing with the same peer replaces what an earlier one stored
class _StoreDevice:
    """what Device.get_long_term_key needs: a connection table, no live SMP session, a key store"""

    def __init__(self, role):
        self.keystore = MemoryKeyStore()
        self._c = type('Conn', (), {'peer_address': hci.Address('F5:F4:F3:F2:F1:F0'), 'role': role})()
        self.smp_manager = type('M', (), {'get_long_term_key': staticmethod(lambda connection, rand, ediv: None)})()

    def lookup_connection(self, handle):
        return self._c


def _keys_of(sc, v, auth):
    value = bytes([v for _ in range(16)])
    if sc:
        return PairingKeys(ltk=PairingKeys.Key(value=value, authenticated=auth))
    return PairingKeys(ltk_central=PairingKeys.Key(value=value, authenticated=auth, ediv=1, rand=bytes(8)),
                       ltk_peripheral=PairingKeys.Key(value=value, authenticated=auth, ediv=1, rand=bytes(8)))


@harness(pre=['0 <= v1 <= 255 and 0 <= v2 <= 255 and v1 != v2 and 0 <= role <= 1'], family='key-roles', twin=True, timeout=(90, 300),
         kernels=K + ('bumble.keys.MemoryKeyStore.update', 'bumble.keys.MemoryKeyStore.get', 'bumble.device.Device.get_long_term_key'),
         bounds='two successive pairings with the same peer store their keys in a MemoryKeyStore (first / second pairing Secure Connections or legacy, authenticated or not, key bytes symbolic): the key the real Device.get_long_term_key hands the controller on the next connection (either role) is the SECOND pairing\'s key, and the stored key it came from carries the second pairing\'s authenticated flag (nothing of the earlier bond survives a re-pairing)')
def repairing_replaces_the_stored_keys(sc1: bool, sc2: bool, a1: bool, a2: bool, v1: int, v2: int, role: int) -> bool:
    role = C(role, 0, 1)
    with detloop.running() as loop:
        d = _StoreDevice(hci.Role.CENTRAL if role == 0 else hci.Role.PERIPHERAL)
        name = str(d._c.peer_address)
        want = bytes([v2 for _ in range(16)])

        async def run():
            await d.keystore.update(name, _keys_of(sc1, v1, a1))
            await d.keystore.update(name, _keys_of(sc2, v2, a2))
            got = await bdev.Device.get_long_term_key(d, 1, bytes(8), 1)
            stored = await d.keystore.get(name)
            return got, stored
        t = loop.create_task(run())
        _settle(loop, 50)
        if not t.done() or t.exception() is not None:
            return False
        got, stored = t.result()
        if got != want:
            return False
        used = stored.ltk or (stored.ltk_central if role == 0 else stored.ltk_peripheral)
        return used is not None and used.value == want and bool(used.authenticated) == bool(a2)


_KD = PairingDelegate.KeyDistribution
_KDS = [None, (_KD.DISTRIBUTE_ENCRYPTION_KEY, _KD.DISTRIBUTE_ENCRYPTION_KEY | _KD.DISTRIBUTE_IDENTITY_KEY),
        (_KD.DISTRIBUTE_ENCRYPTION_KEY | _KD.DISTRIBUTE_IDENTITY_KEY, _KD.DISTRIBUTE_ENCRYPTION_KEY),
        (_KD.DISTRIBUTE_ENCRYPTION_KEY | _KD.DISTRIBUTE_SIGNING_KEY, _KD.DISTRIBUTE_IDENTITY_KEY)]


class _Delegate(PairingDelegate):
    def __init__(self, io, answer, shared, kd=None):
        if kd is None:
            super().__init__(io)
        else:
            super().__init__(io, local_initiator_key_distribution=kd[0], local_responder_key_distribution=kd[1])
        self.answer, self.shared = answer, shared       # answer: 0 accept, 1 reject, 2 wrong passkey / "numbers differ"

    async def accept(self):
        return True

    async def confirm(self, auto=False):
        if self.answer in (1, 3):
            self.shared['rejected'] = True      # this user was asked and said no
        if self.answer == 3:
            await asyncio.sleep(0.5)          # the user takes a while, then rejects
            return False
        return self.answer != 1

    async def compare_numbers(self, number, digits):
        if self.answer != 0:
            self.shared['rejected'] = True
        if self.answer == 3:
            await asyncio.sleep(0.5)
            return False
        return self.answer == 0

    async def display_number(self, number, digits):
        self.shared['number'] = number
        if self.shared.get('modal'):
            # a modal dialog: the number stays on screen until the pairing is over
            for _ in range(100000):          # longer than any settle budget: the dialog never gives up on its own
                if self.shared.get('over'):
                    break
                await asyncio.sleep(0.05)

    async def get_number(self):
        if self.answer != 0:
            self.shared['rejected'] = True
        if self.answer in (1, 3):
            return None
        for _ in range(50):
            if 'number' in self.shared:
                break
            await asyncio.sleep(0.01)
        n = self.shared.get('number', 1234)
        return n if self.answer == 0 else (n + 1) % 1000000


_IOS = [PairingDelegate.DISPLAY_OUTPUT_ONLY, PairingDelegate.DISPLAY_OUTPUT_AND_YES_NO_INPUT, PairingDelegate.KEYBOARD_INPUT_ONLY,
        PairingDelegate.NO_OUTPUT_NO_INPUT, PairingDelegate.DISPLAY_OUTPUT_AND_KEYBOARD_INPUT]


def _two_devices(loop):
    link = lnk.LocalLink()
    devs = []
    for i, addr in enumerate(('F0:F1:F2:F3:F4:F5', 'F5:F4:F3:F2:F1:F0')):
        c = ctl.Controller(f'C{i}', link=link)
        d = bdev.Device(f'D{i}', address=hci.Address(addr), host=bhost.Host(c, c))
        d.keystore = MemoryKeyStore()
        devs.append(d)
    ts = [loop.create_task(d.power_on()) for d in devs]
    _settle(loop)
    loop.create_task(devs[1].start_advertising(auto_restart=False))
    _settle(loop)
    t = loop.create_task(devs[0].connect(devs[1].random_address))
    _settle(loop)
    return devs, t.result()


def _pairing_run(io_a, io_b, sc_a, sc_b, mitm_a, mitm_b, bond_a, bond_b, ans_a, ans_b, kd=0, modal=False):
    """returns a dict describing how the pairing ended on both sides"""
    detenv.reset()
    with detloop.running() as loop:
        devs, conn = _two_devices(loop)
        shared = {'modal': modal}
        devs[0].pairing_config_factory = lambda c: PairingConfig(sc=sc_a, mitm=mitm_a, bonding=bond_a, delegate=_Delegate(_IOS[io_a], ans_a, shared, _KDS[kd]))
        devs[1].pairing_config_factory = lambda c: PairingConfig(sc=sc_b, mitm=mitm_b, bonding=bond_b, delegate=_Delegate(_IOS[io_b], ans_b, shared))
        peer_conn = list(devs[1].connections.values())[0]
        ends = {'a': [], 'b': []}
        conn.on('pairing', lambda keys: (ends['a'].append('ok'), shared.__setitem__('over', True)))
        conn.on('pairing_failure', lambda reason: (ends['a'].append('fail'), shared.__setitem__('over', True)))
        peer_conn.on('pairing', lambda keys: ends['b'].append('ok'))
        peer_conn.on('pairing_failure', lambda reason: ends['b'].append('fail'))
        t = loop.create_task(conn.pair())
        _settle(loop)
        ka = devs[0].keystore.all_keys.get(str(peer_conn.self_address)) or next(iter(devs[0].keystore.all_keys.values()), None)
        kb = next(iter(devs[1].keystore.all_keys.values()), None)
        sa = devs[0].smp_manager.sessions.get(conn.handle)
        return {'done': t.done(), 'exc': (t.exception() if t.done() and not t.cancelled() else None), 'ends': ends, 'ka': ka, 'kb': kb,
                'enc_a': conn.is_encrypted, 'enc_b': peer_conn.is_encrypted, 'rejected': shared.get('rejected', False), 'devs': devs, 'conn': conn, 'peer_conn': peer_conn, 'loop': loop}


def _expected_method(io_a, io_b, sc, mitm):
    to_smp = {0: DO, 1: DYN, 2: KO, 3: NIO, 4: KD}
    if not mitm:
        return JW
    want = table(to_smp[io_a], to_smp[io_b])[1 if sc else 0]
    return PK if isinstance(want, tuple) else want


@harness(pre=['0 <= io_b <= 4 and 0 <= ans <= 3 and 0 <= who <= 1'], family='system-pairing', kernels=K, timeout=(240, 900), twin=True,
         grids=[(('quick',), {'io_a': [0, 1, 2, 3, 4], 'sc_a': [0, 1], 'sc_b': [1], 'mitm': [1], 'bond_a': [1], 'bond_b': [1]}),
                (('quick',), {'io_a': [1, 3], 'sc_a': [1], 'sc_b': [1], 'mitm': [0], 'bond_a': [0, 1], 'bond_b': [0, 1]}),
                (('quick',), {'io_a': [1, 4], 'sc_a': [0, 1], 'sc_b': [1], 'mitm': [2, 3], 'bond_a': [1], 'bond_b': [1]}),
                (('thorough',), {'io_a': [0, 1, 2, 3, 4], 'sc_a': [0, 1], 'sc_b': [0, 1], 'mitm': [0, 1, 2, 3], 'bond_a': [0, 1], 'bond_b': [0, 1]})],
         bounds='two full stacks: initiator IO (per condition) x responder IO (symbolic) x SC on each side x MITM {none, both, initiator only, responder only} x bonding on each side x user answer {accept, reject, wrong passkey / numbers differ, late reject} given by the initiator or the responder (symbolic): pairing never hangs; both sides end the same way; on success the link is encrypted on both ends, the stored keys have equal values and authenticated == (prescribed method != Just Works); on failure nothing is stored')
def system_pairing(io_b: int, ans: int, who: int, io_a: int, sc_a: int, sc_b: int, mitm: int, bond_a: int, bond_b: int) -> bool:
    io_b, ans, who = C(io_b, 0, 4), C(ans, 0, 3), C(who, 0, 1)
    with untraced():
        mitm_a, mitm_b = (mitm in (1, 2)), (mitm in (1, 3))
        r = _pairing_run(io_a, io_b, bool(sc_a), bool(sc_b), mitm_a, mitm_b, bool(bond_a), bool(bond_b), ans if who == 0 else 0, ans if who == 1 else 0)
        if not r['done']:
            return False                               # pairing hangs
        ok_a = r['exc'] is None
        ends = r['ends']
        if r['rejected'] and (ok_a or r['ka'] is not None or r['kb'] is not None or 'ok' in ends['a'] or 'ok' in ends['b']):
            return False                               # a user who was asked refused (or typed a wrong passkey): no success, no keys
        if ok_a:
            if ends['b'] != ['ok'] or not (r['enc_a'] and r['enc_b']):
                return False
            ka, kb = r['ka'], r['kb']
            if ka is None or kb is None:
                return False
            sc = bool(sc_a) and bool(sc_b)
            method = _expected_method(io_a, io_b, sc, mitm_a or mitm_b)
            auth = method != JW
            if sc:
                if ka.ltk is None or kb.ltk is None or ka.ltk.value != kb.ltk.value or ka.ltk.authenticated != auth or kb.ltk.authenticated != auth:
                    return False
            else:
                if ka.ltk_central is None or kb.ltk_peripheral is None or ka.ltk_central.value != kb.ltk_peripheral.value:
                    return False
                if ka.ltk_central.authenticated != auth or kb.ltk_peripheral.authenticated != auth:
                    return False
            return True
        # failure: both sides report it (or the responder never completed) and nothing is stored
        if 'ok' in ends['b'] or 'ok' in ends['a']:
            return False
        return r['ka'] is None and r['kb'] is None


@harness(pre=['0 <= io_a <= 4 and 0 <= io_b <= 4 and 0 <= sc <= 1'], family='system-pairing', kernels=K + ('bumble.smp.Session.display_passkey', 'bumble.smp.Session.prompt_user_for_number'), timeout=(240, 900), twin=True,
         bounds='two complete stacks, MITM requested, every IO capability pair, legacy or Secure Connections, and a display delegate that behaves like a modal dialog (display_number does not return until the pairing is over): pairing still ends (completes with an encrypted link on both sides, or fails on both), it never waits for the dialog')
def pairing_does_not_wait_for_the_display(io_a: int, io_b: int, sc: int) -> bool:
    io_a, io_b, sc = C(io_a, 0, 4), C(io_b, 0, 4), C(sc, 0, 1)
    with untraced():
        r = _pairing_run(io_a, io_b, bool(sc), bool(sc), True, True, True, True, 0, 0, modal=True)
        if not r['done']:
            return False
        if r['exc'] is None:
            return r['ends']['b'] == ['ok'] and r['enc_a'] and r['enc_b']
        return 'ok' not in r['ends']['a'] and 'ok' not in r['ends']['b']


@harness(pre=['0 <= io_b <= 4 and 1 <= kd <= 3'], family='system-pairing', kernels=K + ('bumble.smp.Session.distribute_keys', 'bumble.smp.Session.check_key_distribution'), timeout=(240, 900), twin=True,
         grids=[(('quick',), {'sc': [0, 1], 'io_a': [3]}), (('thorough',), {'sc': [0, 1], 'io_a': [1, 3]})],
         bounds='two full stacks with bonding, the initiator offering asymmetric key-distribution masks (ENC / ENC+ID, ENC+ID / ENC, ENC+SIGN / ID; symbolic choice), legacy and SC, responder IO symbolic: pairing completes on both sides (nobody waits for a key the other side was not asked to send), the link is encrypted and both store keys')
def system_pairing_key_distribution(io_b: int, kd: int, sc: int, io_a: int) -> bool:
    io_b, kd = C(io_b, 0, 4), C(kd, 1, 3)
    with untraced():
        r = _pairing_run(io_a, io_b, bool(sc), bool(sc), False, False, True, True, 0, 0, kd)
        if not r['done'] or r['exc'] is not None:
            return False
        return r['ends']['b'] == ['ok'] and r['enc_a'] and r['enc_b'] and r['ka'] is not None and r['kb'] is not None


_flags.int_format_placeholder = True
