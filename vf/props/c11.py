"""C11 — GATT attribute permissions gate every read and write path.

One target characteristic value (and, separately, a descriptor) carries a symbolic 8-bit permission mask
and a secret value; the link security state is symbolic.  For each reading operation the response must
not depend on the secret unless the access is allowed (two-run non-interference), and a refused access
is answered with the prescribed error; for each writing operation a refused write leaves the value
unchanged.  Real Server handlers + real Attribute.read_value/write_value under the deterministic loop.
"""
import struct

from vf.e1 import harness, untraced, concrete as C
from vf import flags as _flags
from vf import detloop
from vf.props.gattstub import StubBearer, StubEnhancedBearer, make_server, feed, pdus

from bumble import att, gatt, gatt_server, core

ASSUMPTIONS = [
    'allowed(read) = READABLE and (not READ_REQUIRES_ENCRYPTION or link encrypted) and (not READ_REQUIRES_AUTHENTICATION or link authenticated) and not READ_REQUIRES_AUTHORIZATION (bumble has no authorisation callback: authorisation-required means refused); same for write',
    'service / characteristic declarations are readable without permission bits; the check targets characteristic values and descriptors (DESIGN 3.0)',
    'non-interference is checked on two runs that differ only in the secret value',
]
P = att.Attribute.Permissions
PR = gatt.Characteristic.Properties
U = core.UUID.from_16_bits
K = ('bumble.att.Attribute.read_value', 'bumble.att.Attribute.write_value', 'bumble.gatt_server.Server.on_att_read_request',
     'bumble.gatt_server.Server.on_att_read_blob_request', 'bumble.gatt_server.Server.on_att_read_by_type_request',
     'bumble.gatt_server.Server.on_att_read_by_group_type_request', 'bumble.gatt_server.Server.on_att_read_multiple_request',
     'bumble.gatt_server.Server.on_att_read_multiple_variable_request', 'bumble.gatt_server.Server.on_att_find_by_type_value_request',
     'bumble.gatt_server.Server.on_att_write_request', 'bumble.gatt_server.Server.on_att_write_command')


def _B(*xs):
    return bytes(list(xs))


def allowed_read(perm, enc, auth):
    return (perm % 2 == 1 and ((perm // 4) % 2 == 0 or enc) and ((perm // 16) % 2 == 0 or auth) and (perm // 64) % 2 == 0)


def allowed_write(perm, enc, auth):
    return ((perm // 2) % 2 == 1 and ((perm // 8) % 2 == 0 or enc) and ((perm // 32) % 2 == 0 or auth) and (perm // 128) % 2 == 0)


assert (int(P.READABLE), int(P.WRITEABLE), int(P.READ_REQUIRES_ENCRYPTION), int(P.WRITE_REQUIRES_ENCRYPTION), int(P.READ_REQUIRES_AUTHENTICATION),
        int(P.WRITE_REQUIRES_AUTHENTICATION), int(P.READ_REQUIRES_AUTHORIZATION), int(P.WRITE_REQUIRES_AUTHORIZATION)) == (1, 2, 4, 8, 16, 32, 64, 128)


def _serve(perm, secret, enc, auth, build, target='value', eatt=False, mtu=23):
    """one request against a fresh server; returns (sent pdus, target attribute)"""
    with untraced():
        rw = int(P.READABLE | P.WRITEABLE)
        desc = gatt.Descriptor(U(0x2901), rw, b'dd')
        ch = gatt.Characteristic(U(0x2A00), PR.READ | PR.WRITE, rw, b'', descriptors=[desc])
        pub = gatt.Characteristic(U(0x2A01), PR.READ, int(P.READABLE), b'pub')
        dev, server = make_server([ch, pub])
    tgt = ch if target == 'value' else desc
    tgt.value = secret
    tgt.permissions = perm
    conn = StubBearer(mtu, enc=enc, auth=auth)
    bearer = StubEnhancedBearer(conn, mtu) if eatt else conn
    with detloop.running() as loop:
        feed(server, bearer, bytes(build(tgt, pub)), loop)
    out = bearer.written if eatt else pdus(dev)
    return out, tgt


_READ_OPS = {
    'read': lambda t, pub: att.ATT_Read_Request(attribute_handle=t.handle),
    'blob0': lambda t, pub: att.ATT_Read_Blob_Request(attribute_handle=t.handle, value_offset=0),
    'blob1': lambda t, pub: att.ATT_Read_Blob_Request(attribute_handle=t.handle, value_offset=1),
    'bytype': lambda t, pub: att.ATT_Read_By_Type_Request(starting_handle=1, ending_handle=0xFFFF, attribute_type=t.type),
    'bytype_exact': lambda t, pub: att.ATT_Read_By_Type_Request(starting_handle=t.handle, ending_handle=t.handle, attribute_type=t.type),
    'multi_first': lambda t, pub: att.ATT_Read_Multiple_Request(set_of_handles=[t.handle, pub.handle]),
    'multi_last': lambda t, pub: att.ATT_Read_Multiple_Request(set_of_handles=[pub.handle, t.handle]),
    'multivar_last': lambda t, pub: att.ATT_Read_Multiple_Variable_Request(set_of_handles=[pub.handle, t.handle]),
    'multivar_first': lambda t, pub: att.ATT_Read_Multiple_Variable_Request(set_of_handles=[t.handle, pub.handle]),
}
_ERR = {0x05, 0x08, 0x0F, 0x02}      # insufficient authentication / authorization / encryption, read not permitted


def _canary_skip_auth_when_enc():
    orig = att.Attribute.read_value

    async def read_value(self, bearer):
        connection = bearer.connection if att.is_enhanced_bearer(bearer) else bearer
        if (self.permissions & self.READ_REQUIRES_ENCRYPTION):
            if connection is not None and not connection.encryption:
                raise att.ATT_Error(error_code=att.ATT_INSUFFICIENT_ENCRYPTION_ERROR, att_handle=self.handle)
            saved = self.permissions
            self.permissions = saved & ~int(self.READ_REQUIRES_AUTHENTICATION)
            try:
                return await orig(self, bearer)
            finally:
                self.permissions = saved
        return await orig(self, bearer)
    att.Attribute.read_value = read_value


@harness(pre=['0 <= perm <= 255 and 0 <= s0 <= 255 and 0 <= s1 <= 255 and s0 != s1'], family='read-gate', kernels=K, timeout=(40, 120),
         grids=[(('quick',), {'op': list(_READ_OPS), 'target': ['value'], 'eatt': [0]}),
                (('quick',), {'op': ['read', 'multi_last'], 'target': ['descriptor'], 'eatt': [1]}),
                (('thorough',), {'op': list(_READ_OPS), 'target': ['value', 'descriptor'], 'eatt': [0, 1]})],
         canaries=[('auth-check-skipped-when-encryption-flag-set', _canary_skip_auth_when_enc)],
         bounds='every reading operation and parameter form x all 256 permission masks x link {plain, encrypted, authenticated, both} (symbolic) x two different secrets (symbolic first byte); quick: characteristic value on the fixed bearer, thorough: + descriptor, + enhanced bearer')
def read_gate(perm: int, enc: bool, auth: bool, s0: int, s1: int, op: str, target: str, eatt: int) -> bool:
    enc = True if enc else False
    auth = True if auth else False
    long_value = op.startswith('blob')
    tail = bytes(range(1, 30)) if long_value else _B(7)
    r0, _ = _serve(perm, _B(7, s0) + tail, enc, auth, _READ_OPS[op], target, bool(eatt))
    r1, _ = _serve(perm, _B(7, s1) + tail, enc, auth, _READ_OPS[op], target, bool(eatt))
    if len(r0) != 1 or len(r1) != 1:
        return False
    if allowed_read(perm, enc, auth):
        if op in ('read', 'blob0'):
            return r0[0][0] in (0x0B, 0x0D) and r0[0][2] == s0 and r1[0][2] == s1
        return r0[0][0] != 0x01 or r0[0][4] not in _ERR
    # refused: nothing may depend on the secret; operations addressing the attribute directly get the error
    if r0[0] != r1[0]:
        return False
    # (a handle list is refused as a whole wherever the protected handle stands; a range read may stop before it)
    if op in ('read', 'blob0', 'blob1', 'bytype_exact', 'multi_first', 'multivar_first', 'multi_last', 'multivar_last'):
        return r0[0][0] == 0x01 and r0[0][4] in _ERR
    return True


@harness(pre=['0 <= perm <= 255 and 0 <= s0 <= 255 and 0 <= s1 <= 255 and s0 != s1'], family='read-gate', kernels=K, timeout=(40, 120),
         bounds='Find By Type Value as an oracle on a protected value: the response may reveal whether the value equals the probe only if reading is allowed')
def find_by_type_value_gate(perm: int, enc: bool, auth: bool, s0: int, s1: int) -> bool:
    enc = True if enc else False
    auth = True if auth else False
    probe = lambda t, pub: att.ATT_Find_By_Type_Value_Request(starting_handle=1, ending_handle=0xFFFF, attribute_type=t.type, attribute_value=_B(s0, 7))
    r0, _ = _serve(perm, _B(s0, 7), enc, auth, probe)
    r1, _ = _serve(perm, _B(s1, 7), enc, auth, probe)
    if len(r0) != 1 or len(r1) != 1:
        return False
    if allowed_read(perm, enc, auth):
        return r0[0][0] == 0x07 and r1[0][0] == 0x01
    return r0[0] == r1[0]


@harness(pre=['0 <= perm <= 255 and 0 <= v0 <= 255 and 0 <= old <= 255'], family='write-gate', kernels=K, timeout=(40, 120), twin=True,
         grids=[(('quick',), {'op': ['request', 'command'], 'target': ['value'], 'eatt': [0, 1]}),
                (('thorough',), {'op': ['request', 'command'], 'target': ['value', 'descriptor'], 'eatt': [0, 1]})],
         bounds='Write Request / Write Command x all 256 permission masks x link state (symbolic): value changes iff writing is allowed; refused request -> error response')
def write_gate(perm: int, enc: bool, auth: bool, v0: int, old: int, op: str, target: str, eatt: int) -> bool:
    enc = True if enc else False
    auth = True if auth else False
    if op == 'request':
        build = lambda t, pub: att.ATT_Write_Request(attribute_handle=t.handle, attribute_value=_B(v0, 9))
    else:
        build = lambda t, pub: att.ATT_Write_Command(attribute_handle=t.handle, attribute_value=_B(v0, 9))
    out, tgt = _serve(perm, _B(old), enc, auth, build, target, bool(eatt))
    ok = allowed_write(perm, enc, auth)
    if ok:
        if tgt.value != _B(v0, 9):
            return False
    elif tgt.value != _B(old):
        return False
    if op == 'command':
        return out == []
    if len(out) != 1:
        return False
    if ok:
        return out[0] == _B(0x13)
    return out[0][0] == 0x01 and out[0][1] == 0x12 and out[0][4] in {0x05, 0x08, 0x0F, 0x03}


@harness(pre=['0 <= bits <= 15 and 0 <= v0 <= 3'], family='write-gate', kernels=K + ('bumble.gatt_server.Server.add_service',), timeout=(60, 200), twin=True,
         grid={'op': ['write_request', 'write_command', 'read']},
         bounds='a Client Characteristic Configuration descriptor SUPPLIED BY THE APPLICATION with security requirements (any subset of read/write requires encryption/authentication, symbolic) on top of READABLE | WRITEABLE, probed on a link with symbolic security state: the declared requirements hold after registration - a refused write changes neither the descriptor nor the subscription table, a refused read discloses nothing')
def application_supplied_cccd_keeps_its_permissions(bits: int, enc: bool, auth: bool, v0: int, op: str) -> bool:
    enc = True if enc else False
    auth = True if auth else False
    bits = C(bits, 0, 15)
    perm = int(P.READABLE | P.WRITEABLE)
    if bits & 1:
        perm |= int(P.READ_REQUIRES_ENCRYPTION)
    if bits & 2:
        perm |= int(P.WRITE_REQUIRES_ENCRYPTION)
    if bits & 4:
        perm |= int(P.READ_REQUIRES_AUTHENTICATION)
    if bits & 8:
        perm |= int(P.WRITE_REQUIRES_AUTHENTICATION)
    with untraced():
        cccd = gatt.Descriptor(U(0x2902), perm, b'\x00\x00')
        ch = gatt.Characteristic(U(0x2A00), PR.READ | PR.NOTIFY | PR.INDICATE, int(P.READABLE), b'v', descriptors=[cccd])
        dev, server = make_server([ch])
        regs = [a for a in server.attributes if a.type == U(0x2902)]
    if len(regs) != 1:
        return False
    reg = regs[0]
    conn = StubBearer(23, enc=enc, auth=auth)
    if op == 'read':
        pdu = att.ATT_Read_Request(attribute_handle=reg.handle)
    elif op == 'write_request':
        pdu = att.ATT_Write_Request(attribute_handle=reg.handle, attribute_value=_B(v0, 0))
    else:
        pdu = att.ATT_Write_Command(attribute_handle=reg.handle, attribute_value=_B(v0, 0))
    with detloop.running() as loop:
        feed(server, conn, bytes(pdu), loop)
    out = pdus(dev)
    if op == 'read':
        ok = allowed_read(perm, enc, auth)
        if len(out) != 1:
            return False
        return (out[0][0] == 0x0B) if ok else (out[0][0] == 0x01 and out[0][1] == 0x0A and out[0][4] in _ERR)
    ok = allowed_write(perm, enc, auth)
    subscribed = bool(server.subscribers.get(conn))
    if not ok and subscribed:
        return False                       # a refused write must not create a subscription
    if op == 'write_command':
        return out == []
    if len(out) != 1:
        return False
    return (out[0] == _B(0x13)) if ok else (out[0][0] == 0x01 and out[0][1] == 0x12 and out[0][4] in {0x05, 0x08, 0x0F, 0x03})


@harness(pre=['0 <= s0 <= 255 and 0 <= s1 <= 255 and s0 != s1'], family='read-gate', kernels=K, grid={'gt': [0x2800, 0x2803]},
         bounds='declarations: Read By Group Type / Read By Type on declarations never carry the protected value (whatever it is)')
def declarations_do_not_leak(s0: int, s1: int, gt: int) -> bool:
    if gt == 0x2800:
        build = lambda t, pub: att.ATT_Read_By_Group_Type_Request(starting_handle=1, ending_handle=0xFFFF, attribute_group_type=U(0x2800))
    else:
        build = lambda t, pub: att.ATT_Read_By_Type_Request(starting_handle=1, ending_handle=0xFFFF, attribute_type=U(0x2803))
    r0, _ = _serve(0, _B(s0, 7), False, False, build)
    r1, _ = _serve(0, _B(s1, 7), False, False, build)
    return len(r0) == 1 and r0 == r1 and r0[0][0] in (0x11, 0x09)


@harness(pre=['0 <= perm <= 255 and 0 <= s0 <= 255 and 0 <= s1 <= 255 and s0 != s1'], family='read-gate', kernels=K, timeout=(60, 200),
         grids=[(('quick',), {'first': ['read', 'blob0'], 'op': ['blob1', 'read', 'multi_last']}),
                (('thorough',), {'first': ['read', 'blob0', 'bytype', 'multi_first'], 'op': list(_READ_OPS)})],
         bounds='history: a fully entitled peer (encrypted + authenticated link) first performs one reading operation on the same server, then another peer on a link with symbolic security state performs the probed operation; long (30-byte) value; two-run non-interference as in read_gate')
def read_gate_after_entitled_access(perm: int, enc: bool, auth: bool, s0: int, s1: int, first: str, op: str) -> bool:
    enc = True if enc else False
    auth = True if auth else False

    def run(secret):
        with untraced():
            rw = int(P.READABLE | P.WRITEABLE)
            ch = gatt.Characteristic(U(0x2A00), PR.READ | PR.WRITE, rw, b'')
            pub = gatt.Characteristic(U(0x2A01), PR.READ, int(P.READABLE), b'pub')
            dev, server = make_server([ch, pub])
        ch.value = secret
        ch.permissions = perm
        trusted = StubBearer(23, handle=1, enc=True, auth=True)
        other = StubBearer(23, handle=2, enc=enc, auth=auth)
        with detloop.running() as loop:
            feed(server, trusted, bytes(_READ_OPS[first](ch, pub)), loop)
            n = len(dev.sent)
            feed(server, other, bytes(_READ_OPS[op](ch, pub)), loop)
        return [p for h, p in dev.sent[n:]]
    tail = bytes(range(1, 30))
    r0, r1 = run(_B(7, s0) + tail), run(_B(7, s1) + tail)
    if len(r0) != 1 or len(r1) != 1:
        return False
    if allowed_read(perm, enc, auth) or perm % 2 == 0:
        return True          # allowed, or the recorded READABLE finding (checked by read_gate)
    return r0[0] == r1[0]


_flags.int_format_placeholder = True     # log f-strings with symbolic ints are not the subject here (see vf/flags.py)
