"""C03 — one HCI command outstanding; every command is answered exactly once.

Controller side: for every registered command class (generated from the registry of the current tree;
parameters symbolic) and for unregistered opcodes, the real Controller.on_hci_command_packet + handler is
run under the deterministic loop on a link with one peer controller, and the events handed to the host
are counted.  Host side: real Host.send_command with 2-3 concurrent callers against a stub controller
under a symbolic delivery order.  Procedures: PENDING is followed by the completion event.
"""
from vf.e1 import harness, registered, untraced, concrete as C
from vf import flags as _flags
from vf import detloop, gencodec

from bumble import hci, controller as ctl, link as lnk, host as bhost

ASSUMPTIONS = [
    'the stub controller of the host-side conditions answers every command exactly once with its own opcode; delivery delay is symbolic and order-preserving (DESIGN 3.0)',
    'LE Create Connection towards an absent peer may stay pending until cancelled; what must conclude is the cancellation and every procedure whose peer is present',
    'controller conditions: a fresh Controller on a LocalLink with one idle peer controller; no connection exists unless the condition creates one',
    'deterministic event loop vf/detloop.py; log formatting of symbolic values stubbed',
]
K_CTL = ('bumble.controller.Controller.on_hci_command_packet', 'bumble.controller.Controller.on_hci_command', 'bumble.controller.Controller._send_hci_command_status',
         'bumble.controller.Controller.send_hci_packet')
K_HOST = ('bumble.host.Host._send_command', 'bumble.host.Host.send_command', 'bumble.host.Host.send_sync_command', 'bumble.host.Host.send_async_command',
          'bumble.host.Host.on_command_processed', 'bumble.host.Host.on_hci_command_complete_event', 'bumble.host.Host.on_hci_command_status_event')


def _B(*xs):
    return bytes(list(xs))


class _HostSink:
    def __init__(self):
        self.packets = []

    def on_packet(self, data):
        self.packets.append(data)


def fresh_controller(loop):
    with untraced():
        link = lnk.LocalLink()
        c = ctl.Controller('C', link=link, public_address='C0:C0:C0:C0:C0:C0')
        peer = ctl.Controller('P', link=link, public_address='D0:D0:D0:D0:D0:D0')
        sink = _HostSink()
        c.host = sink
        peer.host = _HostSink()
        loop.run_ready()
    return c, peer, sink


def replies(sink):
    """(kind, opcode, num_hci_command_packets) of every Command Complete / Command Status handed to the host"""
    out = []
    for data in sink.packets:
        if data[0] == 4 and data[1] == hci.HCI_COMMAND_COMPLETE_EVENT:
            out.append(('cc', data[4] + 256 * data[5], data[3]))
        elif data[0] == 4 and data[1] == hci.HCI_COMMAND_STATUS_EVENT:
            out.append(('cs', data[5] + 256 * data[6], data[4]))
    return out


def reply_once(fam, key, params):
    """oracle shared by the generated per-command conditions"""
    with detloop.running() as loop:
        c, peer, sink = fresh_controller(loop)
        raw = _B(1, key & 0xFF, key >> 8, len(params)) + bytes(params)
        command = hci.HCI_Packet.from_bytes(raw)
        try:
            c.on_hci_command_packet(command)
        except Exception:
            pass            # a handler that raises must still have answered (or it is a missing answer)
        for _ in range(4):
            loop.run_ready()
            if not loop.advance():
                break
        loop.run_ready()
        r = replies(sink)
        return len(r) == 1 and r[0][1] == key and r[0][2] >= 1


@harness(pre=['0 <= ocf <= 0x3FF and 0 <= p0 <= 255 and 0 <= p1 <= 255'], family='controller-unknown', twin=True, kernels=K_CTL, timeout=(60, 200),
         grid={'ogf': [0x3F, 0x20, 0x01], 'ocf': [0x155, 0x3FF], 'n': [0, 2]},
         bounds='unregistered opcodes (vendor OGF 0x3F and unused OCFs in link-control / LE groups), 0..2 symbolic parameter bytes: exactly one Command Complete or Command Status for that opcode')
def unknown_opcode_answered(p0: int, p1: int, ogf: int, ocf: int, n: int) -> bool:
    op = ogf * 1024 + ocf
    if op in hci.HCI_Command.command_classes:
        return True
    return reply_once('hcicmd', op, [p0, p1][:n])


# ------------------------------------------------------------------------------------------
# host side: serialisation of concurrent callers
class _CtlSink:
    def __init__(self):
        self.cmds = []

    def on_packet(self, data):
        self.cmds.append(data)


def _cc(op, n=1):
    return _B(4, 0x0E, 4, n, op & 0xFF, op >> 8, 0)


def _cs(op, n=1, status=0):
    return _B(4, 0x0F, 4, status, n, op & 0xFF, op >> 8)


def _canary_release_without_lock():
    def on_command_processed(self, event):
        if self.pending_response:
            if self.pending_command.op_code != event.command_opcode:
                pass
            self.pending_response.set_result(event)
        else:
            if event.num_hci_command_packets:
                self.command_semaphore.release()      # releases even when nothing holds it
    bhost.Host.on_command_processed = on_command_processed


_CMDS = [hci.HCI_Reset_Command, hci.HCI_LE_Clear_Filter_Accept_List_Command, hci.HCI_LE_Clear_Resolving_List_Command]     # status-only return parameters


@harness(pre=['0 <= order <= 5 and 0 <= kind1 <= 2 and 0 <= kind2 <= 2 and 0 <= kind3 <= 2'], family='host-serialisation', twin=True, kernels=K_HOST, timeout=(90, 300),
         grid={'callers': [2, 3]}, canaries=[('semaphore-released-when-not-held', _canary_release_without_lock)],
         bounds='2 or 3 concurrent callers of Host.send_command (symbolic start order), each answered by the stub controller with a symbolic choice of {Command Complete, Command Complete with zero credits then a credit-only event, late answer after an unrelated credit-only event}: at most one command at the controller at any time, every caller completes with the event carrying its own opcode')
def host_one_outstanding(order: int, kind1: int, kind2: int, kind3: int, callers: int) -> bool:
    order, kind1, kind2, kind3 = C(order, 0, 5), C(kind1, 0, 2), C(kind2, 0, 2), C(kind3, 0, 2)
    with detloop.running() as loop:
        with untraced():
            h = bhost.Host()
            h.ready = True
            sink = _CtlSink()
            h.set_packet_sink(sink)
        perm = [[0, 1, 2], [0, 2, 1], [1, 0, 2], [1, 2, 0], [2, 0, 1], [2, 1, 0]][order]
        cmds = [_CMDS[i]() for i in perm if i < callers]
        tasks = [loop.create_task(h.send_command(c)) for c in cmds]
        loop.run_ready()
        kinds = [kind1, kind2, kind3]
        answered = 0
        for step in range(12):
            if len(sink.cmds) > answered + 1:
                return False                                    # two commands at the controller
            if answered >= len(sink.cmds):
                break
            raw = sink.cmds[answered]
            op = raw[1] + 256 * raw[2]
            k = kinds[answered % 3]
            if k == 0:
                h.on_packet(_cc(op))
            elif k == 1:
                h.on_packet(_cc(op, 0))
                loop.run_ready()
                if len(sink.cmds) != answered + 1:
                    return False                                # no credit: the next command must wait
                h.on_packet(_cc(0, 1))                          # credit-only event
            else:
                h.on_packet(_cc(0, 1))                          # unrelated credit-only event while the command is outstanding
                loop.run_ready()
                if len(sink.cmds) != answered + 1:
                    return False
                h.on_packet(_cc(op))
            answered += 1
            loop.run_ready()
        if len(sink.cmds) != len(cmds):
            return False
        for t, c in zip(tasks, cmds):
            if not t.done() or t.exception() is not None or t.result().command_opcode != c.op_code:
                return False
        return True


@harness(pre=['0 <= late <= 2 and 0 <= n <= 1'], family='host-serialisation', kernels=K_HOST, timeout=(60, 200),
         bounds='a command times out (response_timeout) and its answer arrives late (0, 1 or 2 stray answers, symbolic); then two callers issue commands concurrently: still at most one command at the controller, each caller gets its own answer')
def host_late_answer_after_timeout(late: int, n: int) -> bool:
    late, n = C(late, 0, 2), C(n, 0, 1)
    with detloop.running() as loop:
        with untraced():
            h = bhost.Host()
            h.ready = True
            sink = _CtlSink()
            h.set_packet_sink(sink)
        t0 = loop.create_task(h.send_command(_CMDS[0](), response_timeout=1.0))
        loop.run_ready()
        if len(sink.cmds) != 1:
            return False
        loop.advance()                  # the response timeout fires
        loop.run_ready()
        if not t0.done() or t0.exception() is None:
            return False
        for _ in range(late):
            h.on_packet(_cc(_CMDS[0].op_code, 1) if n == 0 else _cs(_CMDS[0].op_code, 1))
            loop.run_ready()
        t1 = loop.create_task(h.send_command(_CMDS[1]()))
        t2 = loop.create_task(h.send_command(_CMDS[2]()))
        loop.run_ready()
        if len(sink.cmds) != 2:
            return False                # both went out at once, or none
        h.on_packet(_cc(_CMDS[1].op_code))
        loop.run_ready()
        if len(sink.cmds) != 3 or not t1.done() or t1.exception() is not None or t1.result().command_opcode != _CMDS[1].op_code:
            return False
        h.on_packet(_cc(_CMDS[2].op_code))
        loop.run_ready()
        return t2.done() and t2.exception() is None and t2.result().command_opcode != 0 and t2.result().command_opcode == _CMDS[2].op_code


@harness(pre=['0 <= which <= 2 and 0 <= queued <= 1'], family='host-serialisation', twin=True, kernels=K_HOST, timeout=(60, 200),
         bounds='the transport refuses a command (the sink raises while the command is written; which of three commands is symbolic), optionally with a second caller already queued: the failing caller gets the error, nothing stays pending, and the other / a later command is sent and completed by its own answer')
def host_write_error_releases_the_command_slot(which: int, queued: int) -> bool:
    which, queued = C(which, 0, 2), C(queued, 0, 1)
    with detloop.running() as loop:
        with untraced():
            h = bhost.Host()
            h.ready = True
            sink = _CtlSink()
            fail = [True]

            def on_packet(data):
                if fail[0]:
                    fail[0] = False
                    raise OSError('write failed')
                sink.cmds.append(data)
            sink.on_packet = on_packet
            h.set_packet_sink(sink)
        t0 = loop.create_task(h.send_command(_CMDS[which]()))
        t1 = loop.create_task(h.send_command(_CMDS[(which + 1) % 3]())) if queued else None
        loop.run_ready()
        if not t0.done() or t0.exception() is None:
            return False
        if h.pending_command is not None and not queued:
            return False
        if t1 is None:
            t1 = loop.create_task(h.send_command(_CMDS[(which + 1) % 3]()))
            loop.run_ready()
        if len(sink.cmds) != 1:
            return False            # the next command never reached the controller: the slot was not released
        h.on_packet(_cc(_CMDS[(which + 1) % 3].op_code))
        loop.run_ready()
        return t1.done() and t1.exception() is None and t1.result().command_opcode == _CMDS[(which + 1) % 3].op_code


# ------------------------------------------------------------------------------------------
# procedures: PENDING is followed by the completion event
def _events(sink, cls):
    out = []
    for data in sink.packets:
        p = hci.HCI_Packet.from_bytes(data)
        if isinstance(p, cls):
            out.append(p)
    return out


def _settle(loop):
    for _ in range(20):
        loop.run_ready()
        if not loop.advance():
            break
    loop.run_ready()


@harness(pre=['0 <= handle <= 0x0EFF and 0 <= reason <= 255'], family='procedures', twin=True, kernels=K_CTL + ('bumble.controller.Controller.on_hci_disconnect_command',), timeout=(60, 200),
         bounds='Disconnect with a symbolic handle on a controller without connections: answered once, and if the answer is PENDING a Disconnection Complete follows')
def disconnect_unknown_handle_concludes(handle: int, reason: int) -> bool:
    with detloop.running() as loop:
        c, peer, sink = fresh_controller(loop)
        c.on_hci_command_packet(hci.HCI_Disconnect_Command(connection_handle=handle, reason=reason))
        _settle(loop)
        r = replies(sink)
        if len(r) != 1 or r[0][0] != 'cs' or r[0][1] != hci.HCI_DISCONNECT_COMMAND:
            return False
        status = [d for d in sink.packets if d[1] == hci.HCI_COMMAND_STATUS_EVENT][0][3]
        if status == 0:
            return len(_events(sink, hci.HCI_Disconnection_Complete_Event)) == 1
        return True


def _le_create(c, peer_addr, own_type=0):
    c.on_hci_command_packet(hci.HCI_LE_Create_Connection_Command(
        le_scan_interval=16, le_scan_window=16, initiator_filter_policy=0, peer_address_type=peer_addr.address_type, peer_address=peer_addr,
        own_address_type=own_type, connection_interval_min=6, connection_interval_max=12, max_latency=0, supervision_timeout=100, min_ce_length=0, max_ce_length=0))


def _advertise(x):
    x.on_hci_command_packet(hci.HCI_LE_Set_Advertising_Parameters_Command(
        advertising_interval_min=32, advertising_interval_max=32, advertising_type=0, own_address_type=0, peer_address_type=0, peer_address=hci.Address.ANY,
        advertising_channel_map=7, advertising_filter_policy=0))
    x.on_hci_command_packet(hci.HCI_LE_Set_Advertising_Enable_Command(advertising_enable=1))


@harness(pre=['0 <= present <= 1 and 0 <= cancel <= 1 and 0 <= again <= 1'], family='procedures', kernels=K_CTL + ('bumble.controller.Controller.on_hci_le_create_connection_command', 'bumble.controller.Controller.on_hci_le_create_connection_cancel_command'),
         timeout=(90, 300),
         bounds='LE Create Connection towards a present (advertising) or absent peer, optionally cancelled, optionally followed by a second create: every command answered once; with the peer present an LE Connection Complete arrives; a cancelled attempt is concluded by an LE Connection Complete with an error status and a later create is accepted')
def le_create_and_cancel(present: int, cancel: int, again: int) -> bool:
    present, cancel, again = C(present, 0, 1), C(cancel, 0, 1), C(again, 0, 1)
    with untraced():
        with detloop.running() as loop:
            c, peer, sink = fresh_controller(loop)
            if present:
                _advertise(peer)
                _settle(loop)
            target = peer.public_address if present else hci.Address('E0:E0:E0:E0:E0:E0', hci.AddressType.PUBLIC_DEVICE)
            _le_create(c, target)
            _settle(loop)
            r = replies(sink)
            if len(r) != 1 or r[0][0] != 'cs':
                return False
            done = _events(sink, hci.HCI_LE_Connection_Complete_Event) + _events(sink, hci.HCI_LE_Enhanced_Connection_Complete_Event)
            if present:
                return len(done) == 1 and done[0].status == 0
            if not cancel:
                return len(done) == 0
            c.on_hci_command_packet(hci.HCI_LE_Create_Connection_Cancel_Command())
            _settle(loop)
            r = replies(sink)
            if len(r) != 2 or r[1][0] != 'cc' or r[1][1] != hci.HCI_LE_CREATE_CONNECTION_CANCEL_COMMAND:
                return False
            done = _events(sink, hci.HCI_LE_Connection_Complete_Event) + _events(sink, hci.HCI_LE_Enhanced_Connection_Complete_Event)
            if len(done) != 1 or done[0].status == 0:
                return False                    # the cancelled procedure must be concluded with an error status
            if again:
                _le_create(c, target)
                _settle(loop)
                r = replies(sink)
                status = [d for d in sink.packets if d[1] == hci.HCI_COMMAND_STATUS_EVENT][-1][3]
                return len(r) == 3 and r[2][0] == 'cs' and status == 0
            return True


def _classic_pair(loop):
    """two controllers with a BR/EDR connection between them (set up through HCI commands); returns (c, peer, sink, handle)"""
    c, peer, sink = fresh_controller(loop)
    c.on_hci_command_packet(hci.HCI_Create_Connection_Command(bd_addr=peer.public_address, packet_type=0xCC18, page_scan_repetition_mode=1, reserved=0, clock_offset=0, allow_role_switch=1))
    _settle(loop)
    peer.on_hci_command_packet(hci.HCI_Accept_Connection_Request_Command(bd_addr=c.public_address, role=hci.Role.PERIPHERAL))
    _settle(loop)
    done = [e for e in _events(sink, hci.HCI_Connection_Complete_Event) if e.status == 0]
    return c, peer, sink, (done[0].connection_handle if done else None)


def _le_pair(loop):
    c, peer, sink = fresh_controller(loop)
    _advertise(peer)
    _settle(loop)
    _le_create(c, peer.public_address)
    _settle(loop)
    done = [e for e in _events(sink, hci.HCI_LE_Connection_Complete_Event) + _events(sink, hci.HCI_LE_Enhanced_Connection_Complete_Event) if e.status == 0]
    return c, peer, sink, (done[0].connection_handle if done else None)


_PROCS = {
    # name: (transport, builder(handle, x, peer), completion event class)
    'disconnect': ('any', lambda h, x, p: hci.HCI_Disconnect_Command(connection_handle=h, reason=0x13), hci.HCI_Disconnection_Complete_Event),
    'remote_features': ('classic', lambda h, x, p: hci.HCI_Read_Remote_Supported_Features_Command(connection_handle=h), hci.HCI_Read_Remote_Supported_Features_Complete_Event),
    'remote_ext_features': ('classic', lambda h, x, p: hci.HCI_Read_Remote_Extended_Features_Command(connection_handle=h, page_number=x), hci.HCI_Read_Remote_Extended_Features_Complete_Event),
    'remote_name': ('classic', lambda h, x, p: hci.HCI_Remote_Name_Request_Command(bd_addr=p.public_address, page_scan_repetition_mode=1, reserved=0, clock_offset=0), hci.HCI_Remote_Name_Request_Complete_Event),
    'le_remote_features': ('le', lambda h, x, p: hci.HCI_LE_Read_Remote_Features_Command(connection_handle=h), hci.HCI_LE_Read_Remote_Features_Complete_Event),
}


@harness(pre=['0 <= x <= 255'], family='procedures', kernels=K_CTL + ('bumble.controller.Controller.on_lmp_packet', 'bumble.controller.Controller.on_ll_control_pdu'), timeout=(90, 300),
         grid={'proc': ['disconnect', 'remote_features', 'remote_ext_features', 'remote_name', 'le_remote_features'], 'transport': ['classic', 'le']},
         bounds='procedures on a live BR/EDR or LE connection between two virtual controllers (disconnect, remote features, remote extended features with a symbolic page 0..255, remote name, LE remote features): one Command Status, and when it is PENDING/SUCCESS the completion event of that procedure follows')
def procedure_concludes(x: int, proc: str, transport: str) -> bool:
    kind, build, done_cls = _PROCS[proc]
    if kind not in ('any', transport):
        return True
    with detloop.running() as loop:
        with untraced():
            c, peer, sink, handle = _classic_pair(loop) if transport == 'classic' else _le_pair(loop)
        if handle is None:
            return False
        n0 = len(replies(sink))
        c.on_hci_command_packet(build(handle, x, peer))
        _settle(loop)
        r = replies(sink)[n0:]
        if len(r) != 1 or r[0][0] != 'cs':
            return False
        status = [d for d in sink.packets if d[1] == hci.HCI_COMMAND_STATUS_EVENT][-1][3]
        if status != 0:
            return True
        return len(_events(sink, done_cls)) == 1


@harness(pre=['0 <= allow <= 1 and 0 <= role <= 1'], family='procedures', twin=True, timeout=(90, 300),
         kernels=K_CTL + ('bumble.controller.Controller.on_hci_create_connection_command', 'bumble.controller.Controller.on_hci_accept_connection_request_command',
                          'bumble.controller.Controller.on_classic_connection_complete'),
         bounds='BR/EDR connection set-up between two virtual controllers: Create Connection with role switch allowed or not, answered by Accept as central or as peripheral (Reject Connection Request is not implemented by the virtual controller and is answered UNKNOWN_HCI_COMMAND: outside): BOTH hosts receive exactly one Connection Complete (success on both or an error on both)')
def classic_setup_concludes_on_both_sides(allow: int, role: int) -> bool:
    allow, role = C(allow, 0, 1), C(role, 0, 1)
    with detloop.running() as loop:
        with untraced():
            c, peer, sink = fresh_controller(loop)
            psink = _HostSink()
            peer.host = psink
        c.on_hci_command_packet(hci.HCI_Create_Connection_Command(bd_addr=peer.public_address, packet_type=0xCC18, page_scan_repetition_mode=1, reserved=0, clock_offset=0, allow_role_switch=allow))
        _settle(loop)
        if not _events(psink, hci.HCI_Connection_Request_Event):
            return False
        peer.on_hci_command_packet(hci.HCI_Accept_Connection_Request_Command(bd_addr=c.public_address, role=hci.Role.CENTRAL if role == 0 else hci.Role.PERIPHERAL))
        _settle(loop)
        a, b = _events(sink, hci.HCI_Connection_Complete_Event), _events(psink, hci.HCI_Connection_Complete_Event)
        if len(a) != 1 or len(b) != 1:
            return False
        return (a[0].status == 0) == (b[0].status == 0)


# ------------------------------------------------------------------------------------------
# procedures: LE encryption start, CIS set-up and CIS teardown
def _cs_status(sink):
    return [d for d in sink.packets if d[1] == hci.HCI_COMMAND_STATUS_EVENT][-1][3]


def _le_pair2(loop):
    """LE connection between two controllers, both host sinks kept: (c, peer, sink, psink, handle at c, handle at peer)"""
    c, peer, sink, handle = _le_pair(loop)
    psink = peer.host
    done = [e for e in _events(psink, hci.HCI_LE_Connection_Complete_Event) + _events(psink, hci.HCI_LE_Enhanced_Connection_Complete_Event) if e.status == 0]
    return c, peer, sink, psink, handle, (done[0].connection_handle if done else None)


def _enc_changes(sink, handle):
    return [e for e in _events(sink, hci.HCI_Encryption_Change_Event) + _events(sink, hci.HCI_Encryption_Change_V2_Event) if e.connection_handle == handle]


@harness(pre=['0 <= bad <= 2 and 0 <= r0 <= 255 and 0 <= r7 <= 255 and 0 <= ediv <= 65535 and 0 <= k0 <= 255 and 0 <= k15 <= 255'], family='procedures', twin=True, timeout=(90, 300),
         kernels=K_CTL + ('bumble.controller.Controller.on_hci_le_enable_encryption_command', 'bumble.controller.Controller.on_le_encrypted', 'bumble.controller.Controller.on_ll_control_pdu'),
         bounds='LE Enable Encryption on a live LE link (rand, EDIV and LTK bytes symbolic) or with a handle that is not an LE connection (unknown handle / no connection at all): one Command Status; when it is PENDING/SUCCESS exactly one Encryption Change for that handle reaches the central host and one the peripheral host, otherwise none')
def le_encryption_concludes(bad: int, r0: int, r7: int, ediv: int, k0: int, k15: int) -> bool:
    bad = C(bad, 0, 2)
    with detloop.running() as loop:
        with untraced():
            c, peer, sink, psink, handle, phandle = _le_pair2(loop)
        if handle is None or phandle is None:
            return False
        n0 = len(replies(sink))
        target = handle if bad == 0 else (handle + 1 if bad == 1 else 0x0EFF)
        c.on_hci_command_packet(hci.HCI_LE_Enable_Encryption_Command(
            connection_handle=target, random_number=_B(r0, 1, 2, 3, 4, 5, 6, r7), encrypted_diversifier=ediv, long_term_key=_B(k0, *range(14), k15)))
        _settle(loop)
        r = replies(sink)[n0:]
        if len(r) != 1 or r[0][0] != 'cs' or r[0][1] != hci.HCI_LE_ENABLE_ENCRYPTION_COMMAND:
            return False
        if _cs_status(sink) != 0:
            return not _enc_changes(sink, target) and not _enc_changes(psink, phandle)
        return bad == 0 and len(_enc_changes(sink, handle)) == 1 and len(_enc_changes(psink, phandle)) == 1


def _set_cig(c, sink, loop, ids):
    n = len(ids)
    n0 = len(sink.packets)
    c.on_hci_command_packet(hci.HCI_LE_Set_CIG_Parameters_Command(
        cig_id=1, sdu_interval_c_to_p=10000, sdu_interval_p_to_c=10000, worst_case_sca=0, packing=0, framing=0, max_transport_latency_c_to_p=10, max_transport_latency_p_to_c=10,
        cis_id=list(ids), max_sdu_c_to_p=[100] * n, max_sdu_p_to_c=[100] * n, phy_c_to_p=[1] * n, phy_p_to_c=[1] * n, rtn_c_to_p=[1] * n, rtn_p_to_c=[1] * n))
    _settle(loop)
    done = [e for e in (hci.HCI_Packet.from_bytes(d) for d in sink.packets[n0:]) if isinstance(e, hci.HCI_Command_Complete_Event)]
    return list(done[0].return_parameters.connection_handle)


def _established(sink, handle):
    return [e for e in _events(sink, hci.HCI_LE_CIS_Established_Event) if e.connection_handle == handle]


def _disconnected(sink, handle):
    return [e for e in _events(sink, hci.HCI_Disconnection_Complete_Event) if e.connection_handle == handle]


K_CIS = K_CTL + ('bumble.controller.Controller.on_hci_le_set_cig_parameters_command', 'bumble.controller.Controller.on_hci_le_create_cis_command',
                 'bumble.controller.Controller.on_hci_le_accept_cis_request_command', 'bumble.controller.Controller.on_le_cis_request',
                 'bumble.controller.Controller.on_le_cis_established', 'bumble.controller.Controller.on_le_cis_disconnected',
                 'bumble.controller.Controller.on_hci_disconnect_command', 'bumble.controller.Controller.on_le_disconnected')


@harness(pre=['0 <= n <= 1 and 0 <= bad <= 2 and 0 <= order <= 1 and 0 <= re <= 2 and 1 <= id0 <= 0xEF and 1 <= id1 <= 0xEF and id0 != id1'], family='procedures', twin=True, timeout=(150, 400), kernels=K_CIS,
         bounds='CIS set-up between two virtual controllers over a live LE link: Set CIG Parameters with 1 or 2 CIS (ids symbolic; optionally preceded by an earlier Set CIG Parameters for the same CIG with the same ids swapped or with a superset, which the new one replaces), one LE Create CIS naming all of them (all handles valid, or the last CIS handle / the ACL handle not known), the peripheral host accepts the requests in either order: one Command Status per command; when Create CIS was accepted every CIS of the command is concluded by exactly one LE CIS Established at the central, and every accepted request by exactly one at the peripheral; a refused Create CIS is outside (no clause)')
def cis_setup_concludes(n: int, bad: int, order: int, re: int, id0: int, id1: int) -> bool:
    n, bad, order, re = C(n, 0, 1) + 1, C(bad, 0, 2), C(order, 0, 1), C(re, 0, 2)
    with detloop.running() as loop:
        with untraced():
            c, peer, sink, psink, handle, phandle = _le_pair2(loop)
        if handle is None:
            return False
        if re:
            old = _set_cig(c, sink, loop, [id1, id0] if re == 1 else [id1, id0, 0xEF - 1 if 0xEF - 1 not in (id0, id1) else 0xEF - 3])
        cis = _set_cig(c, sink, loop, [id0, id1][:n])
        if len(cis) != n or len(set(cis)) != n or handle in cis:
            return False
        n0 = len(replies(sink))
        named = list(cis)
        acl = [handle] * n
        if bad == 1:
            named[-1] = 0x0EFE
        elif bad == 2:
            acl[-1] = 0x0EFD
        c.on_hci_command_packet(hci.HCI_LE_Create_CIS_Command(cis_connection_handle=named, acl_connection_handle=acl))
        _settle(loop)
        r = replies(sink)[n0:]
        if len(r) != 1 or r[0][0] != 'cs' or r[0][1] != hci.HCI_LE_CREATE_CIS_COMMAND:
            return False
        if _cs_status(sink) != 0:
            return bad != 0
        if bad != 0:
            return False                       # a command naming an unknown handle must not be accepted as pending
        reqs = _events(psink, hci.HCI_LE_CIS_Request_Event)
        if len(reqs) != n or any(q.acl_connection_handle != phandle for q in reqs):
            return False
        for q in (reqs if order == 0 else reqs[::-1]):
            p0 = len(replies(psink))
            peer.on_hci_command_packet(hci.HCI_LE_Accept_CIS_Request_Command(connection_handle=q.cis_connection_handle))
            _settle(loop)
            pr = replies(psink)[p0:]
            if len(pr) != 1 or pr[0][0] != 'cs' or _cs_status(psink) != 0:
                return False
        return all(len(_established(sink, h)) == 1 and _established(sink, h)[0].status == 0 for h in cis) and \
            all(len(_established(psink, q.cis_connection_handle)) == 1 for q in reqs)


def _cis_up(loop, n=2):
    """LE link + CIG with n CIS at the central, the first of them established: (c, peer, sink, psink, acl, pacl, cis handles, peripheral CIS handle)"""
    c, peer, sink, psink, handle, phandle = _le_pair2(loop)
    cis = _set_cig(c, sink, loop, [3, 4][:n])
    c.on_hci_command_packet(hci.HCI_LE_Create_CIS_Command(cis_connection_handle=[cis[0]], acl_connection_handle=[handle]))
    _settle(loop)
    q = _events(psink, hci.HCI_LE_CIS_Request_Event)[0]
    peer.on_hci_command_packet(hci.HCI_LE_Accept_CIS_Request_Command(connection_handle=q.cis_connection_handle))
    _settle(loop)
    assert len(_established(sink, cis[0])) == 1 and len(_established(psink, q.cis_connection_handle)) == 1
    return c, peer, sink, psink, handle, phandle, cis, q.cis_connection_handle


@harness(pre=['0 <= who <= 1 and 0 <= target <= 2 and 0 <= reason <= 255'], family='procedures', twin=True, timeout=(120, 300), kernels=K_CIS,
         bounds='Disconnect (reason symbolic) of a CIS handle: an established CIS closed by the central or by the peripheral host, the same handle disconnected a second time after it was closed, or a CIS handle of the CIG that was never established: one Command Status each; whenever the status is PENDING/SUCCESS a Disconnection Complete for that handle follows (and the first one also reaches the other end); otherwise an error status and nothing pending')
def cis_disconnect_concludes(who: int, target: int, reason: int) -> bool:
    who, target = C(who, 0, 1), C(target, 0, 2)
    with detloop.running() as loop:
        with untraced():
            c, peer, sink, psink, handle, phandle, cis, pcis = _cis_up(loop)
        if target == 2:
            if who == 1:
                return True
            x, xs, h = c, sink, cis[1]           # configured, never established
            rounds = 1
        else:
            x, xs, h = (c, sink, cis[0]) if who == 0 else (peer, psink, pcis)
            rounds = 1 + target
        for k in range(rounds):
            n0, d0 = len(replies(xs)), len(_disconnected(xs, h))
            x.on_hci_command_packet(hci.HCI_Disconnect_Command(connection_handle=h, reason=reason))
            _settle(loop)
            r = replies(xs)[n0:]
            if len(r) != 1 or r[0][0] != 'cs' or r[0][1] != hci.HCI_DISCONNECT_COMMAND:
                return False
            accepted = _cs_status(xs) == 0
            got = len(_disconnected(xs, h)) - d0
            if accepted and got != 1:
                return False                     # accepted as pending and never concluded
            if not accepted and got != 0:
                return False
            if k == 0 and target != 2:
                if not accepted:
                    return False                 # an established CIS can be closed
                other = _disconnected(psink, pcis) if who == 0 else _disconnected(sink, cis[0])
                if len(other) != 1:
                    return False
        return True


@harness(pre=['0 <= who <= 1 and 0 <= stage <= 1 and 0 <= reason <= 255'], family='procedures', twin=True, timeout=(120, 300), kernels=K_CIS,
         bounds='the LE link goes away (Disconnect of the ACL handle by the central or the peripheral host, reason symbolic) while a CIS is being set up (requested, not yet accepted) or after it was established: a pending Create CIS is concluded at the central by one LE CIS Established with an error status; an established CIS is reported closed (Disconnection Complete for the CIS handle) at both ends; the ACL disconnection itself is concluded at both ends')
def cis_ends_with_its_acl(who: int, stage: int, reason: int) -> bool:
    who, stage = C(who, 0, 1), C(stage, 0, 1)
    with detloop.running() as loop:
        with untraced():
            c, peer, sink, psink, handle, phandle, cis, pcis = _cis_up(loop)
            if stage == 0:
                c.on_hci_command_packet(hci.HCI_LE_Create_CIS_Command(cis_connection_handle=[cis[1]], acl_connection_handle=[handle]))
                _settle(loop)
                if _cs_status(sink) != 0 or len(_events(psink, hci.HCI_LE_CIS_Request_Event)) != 2:
                    return False
        x, xs, h = (c, sink, handle) if who == 0 else (peer, psink, phandle)
        x.on_hci_command_packet(hci.HCI_Disconnect_Command(connection_handle=h, reason=reason))
        _settle(loop)
        if len(_disconnected(sink, handle)) != 1 or len(_disconnected(psink, phandle)) != 1:
            return False
        if stage == 0:
            e = _established(sink, cis[1])
            if len(e) != 1 or e[0].status == 0:
                return False
        return len(_disconnected(sink, cis[0])) == 1 and len(_disconnected(psink, pcis)) == 1


@harness(pre=['0 <= proc <= 1 and 0 <= a0 <= 3 and 0 <= allow <= 1'], family='procedures', twin=True, timeout=(90, 300),
         kernels=K_CTL + ('bumble.controller.Controller.on_hci_create_connection_command', 'bumble.controller.Controller.on_hci_remote_name_request_command',
                          'bumble.controller.Controller.send_lmp_packet', 'bumble.link.LocalLink.send_lmp_packet'),
         bounds='BR/EDR Create Connection / Remote Name Request towards an address no controller on the link owns (four absent addresses, one of them differing from the address of the present peer in a single byte): one Command Status, no exception out of the controller, and when the status is PENDING/SUCCESS the procedure is concluded by one Connection Complete / Remote Name Request Complete with an error status; a later Create Connection towards the present peer is still accepted')
def classic_absent_peer_concludes(proc: int, a0: int, allow: int) -> bool:
    proc, a0, allow = C(proc, 0, 1), C(a0, 0, 3), C(allow, 0, 1)
    with detloop.running() as loop:
        with untraced():
            c, peer, sink = fresh_controller(loop)
        absent = hci.Address(bytes(peer.public_address)[:5] + _B(0xD1), hci.AddressType.PUBLIC_DEVICE) if a0 == 3 else hci.Address(_B(a0, 0xE1, 0xE2, 0xE3, 0xE4, 0xE5), hci.AddressType.PUBLIC_DEVICE)
        if proc == 0:
            cmd, done_cls = hci.HCI_Create_Connection_Command(bd_addr=absent, packet_type=0xCC18, page_scan_repetition_mode=1, reserved=0, clock_offset=0, allow_role_switch=allow), hci.HCI_Connection_Complete_Event
        else:
            cmd, done_cls = hci.HCI_Remote_Name_Request_Command(bd_addr=absent, page_scan_repetition_mode=1, reserved=0, clock_offset=0), hci.HCI_Remote_Name_Request_Complete_Event
        try:
            c.on_hci_command_packet(cmd)
        except Exception:
            return False
        _settle(loop)
        r = replies(sink)
        if len(r) != 1 or r[0][0] != 'cs' or r[0][1] != cmd.op_code:
            return False
        if _cs_status(sink) == 0:
            done = _events(sink, done_cls)
            if len(done) != 1 or done[0].status == 0:
                return False
        with untraced():
            c.on_hci_command_packet(hci.HCI_Create_Connection_Command(bd_addr=peer.public_address, packet_type=0xCC18, page_scan_repetition_mode=1, reserved=0, clock_offset=0, allow_role_switch=1))
            _settle(loop)
            return _cs_status(sink) == 0 and len(_events(peer.host, hci.HCI_Connection_Request_Event)) == 1


def conditions():
    out = registered(__name__)
    out += gencodec.conditions(['hcicmd'], timeout=(40.0, 120.0), oracle=reply_once, prefix='reply_', family='controller-reply-once', kernels=K_CTL,
                               bounds='every registered HCI command class (generated from the registry of the current tree), parameter bytes symbolic (control bytes per shape, enum bytes over representatives): the controller hands the host exactly one Command Complete / Command Status with that opcode and at least one command credit')
    return out


_flags.int_format_placeholder = True
