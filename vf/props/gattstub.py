"""Stubs shared by the GATT harnesses (C10, C11, C12, C16): a device that records what the server
sends, fixed-channel and enhanced bearers with settable security state."""
from bumble import att, gatt, gatt_server, core, l2cap

from vf import detloop


class StubChannelManager:
    def __init__(self):
        self.le_coc_channels = {}


class StubDevice:
    def __init__(self):
        self.sent = []          # (bearer-id, pdu bytes)
        self.l2cap_channel_manager = StubChannelManager()

    def send_l2cap_pdu(self, handle, cid, pdu):
        self.sent.append((handle, bytes(pdu)))


class StubBearer:
    """stands for a device.Connection as the fixed ATT bearer"""

    def __init__(self, mtu=23, handle=1, enc=False, auth=False):
        self.att_mtu = mtu
        self.handle = handle
        self.encryption = 1 if enc else 0
        self.authenticated = auth

    def on_att_mtu_update(self, mtu):
        self.att_mtu = mtu


class StubEnhancedBearer(l2cap.LeCreditBasedChannel):
    """an EATT bearer: a real subclass of LeCreditBasedChannel (so att.is_enhanced_bearer holds) without set-up"""

    def __init__(self, connection, mtu=64):     # noqa: no super().__init__ (no manager needed)
        self.connection = connection
        self.att_mtu = mtu
        self.psm = att.EATT_PSM
        self.written = []
        self.source_cid = 0x40

    def write(self, data):
        self.written.append(bytes(data))

    def on_att_mtu_update(self, mtu):
        self.att_mtu = mtu

    def __hash__(self):
        return id(self)

    def __eq__(self, other):
        return self is other


def make_server(chars, service_uuid=None, extra_services=()):
    dev = StubDevice()
    server = gatt_server.Server(dev)
    svc = gatt.Service(service_uuid or core.UUID.from_16_bits(0x1800), list(chars))
    server.add_service(svc)
    for s in extra_services:
        server.add_service(s)
    return dev, server


def feed(server, bearer, pdu_bytes, loop):
    server.on_gatt_pdu(bearer, att.ATT_PDU.from_bytes(pdu_bytes))
    loop.run_ready()


def pdus(dev):
    return [p for _, p in dev.sent]
