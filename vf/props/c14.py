"""C14 — crypto back ends agree with each other and with the specification.

What is symbolic here: the fallback's curve arithmetic instantiated on small prime curves (the code is generic
in the curve parameters; P-256 itself is 256-bit non-linear arithmetic, outside the solver's reach, and is
visited only at representative points chosen by solver forks), the point-validation predicate on the small
curves and on P-256 for structured off-curve families, the CMAC sub-key rule and last-block handling with the
block cipher replaced by a keyed affine stub (an independent RFC 4493 transcription is the oracle), and the
RPA generate/resolve cycle with `e` replaced by an injective stub.  AES itself (table-driven S-box, and FFI in
the library back end) is outside: the two back ends are compared on concrete representatives only.
"""
from vf.e1 import harness, untraced, concrete as C
from vf import flags as _flags

from bumble import core, hci, smp
from bumble import crypto
from bumble.crypto import builtin as bi

_flags.int_format_placeholder = True

ASSUMPTIONS = [
    'small curves y^2 = x^3 + a x + b over F_p (p in {97, 103, 211}) stand for P-256 in the group-law conditions: the fallback code is parametric in (p, a, b, n, G); width-specific defects (e.g. a 32-byte truncation) are outside',
    'reference group law: affine chord-and-tangent formulas transcribed in this file',
    'CMAC: block cipher replaced by E_k(x) = byte-wise (x + k + 1) mod 256 (a permutation); reference = RFC 4493 transcription in this file; AES rounds are outside',
    'RPA: bumble.crypto.e replaced by an injective byte-wise stub; prand/IRK symbolic',
    'library back end (FFI) is only compared on concrete representatives selected by solver forks',
]
K = ('bumble.crypto.builtin._EllipticCurve.ecdh_shared_secret', 'bumble.crypto.builtin._EllipticCurve.generate_public_key', 'bumble.crypto.builtin._JacobianPoint.__add__',
     'bumble.crypto.builtin._JacobianPoint.double', 'bumble.crypto.builtin._JacobianPoint.__mul__', 'bumble.crypto.builtin._JacobianPoint.to_affine', 'bumble.crypto.builtin.EccKey.dh',
     'bumble.crypto.builtin._CMAC.__init__', 'bumble.crypto.builtin._CMAC.update', 'bumble.crypto.builtin._CMAC.digest', 'bumble.crypto.builtin._shift_bytes',
     'bumble.crypto.ah', 'bumble.crypto.generate_prand', 'bumble.hci.Address.generate_private_address', 'bumble.smp.AddressResolver.resolve', 'bumble.crypto.cryptography.EccKey.dh')


# ------------------------------------------------------------------------------------------ small curves
def _order(p, a, b, g):
    k, q = 1, g
    while q is not None:
        q = _ref_add(p, a, q, g)
        k += 1
    return k


def _ref_add(p, a, P, Q):
    """affine chord-and-tangent; None is the point at infinity"""
    if P is None:
        return Q
    if Q is None:
        return P
    (x1, y1), (x2, y2) = P, Q
    if x1 == x2:
        if (y1 + y2) % p == 0:
            return None
        lam = (3 * x1 * x1 + a) * pow(2 * y1, -1, p) % p
    else:
        lam = (y2 - y1) * pow((x2 - x1) % p, -1, p) % p
    x3 = (lam * lam - x1 - x2) % p
    return (x3, (lam * (x1 - x3) - y1) % p)


def _ref_mul(p, a, k, P):
    """double-and-add is what the code does; the reference adds P k times"""
    r = None
    for _ in range(k):
        r = _ref_add(p, a, r, P)
    return r


_CURVES = {}


def _curve(idx):
    """(p, a, b, G) with G of prime or composite order; computed concretely once per process"""
    if idx not in _CURVES:
        p, a, b, g = [(97, 2, 3, (3, 6)), (23, 1, 1, None), (31, 2, 3, None)][idx]
        if g is None:
            g = next((x, y) for x in range(p) for y in range(1, p) if (y * y - (x ** 3 + a * x + b)) % p == 0)
        n = _order(p, a, b, g)
        _CURVES[idx] = (p, a, b, n, g, bi._EllipticCurve(p=p, a=a, b=b, n=n, g_x=g[0], g_y=g[1]))
    return _CURVES[idx]


def _on(p, a, b, x, y):
    return 0 <= x < p and 0 <= y < p and (y * y - (x * x * x + a * x + b)) % p == 0


def _canary_no_validation():
    def ecdh(self, private_key, other_public_key):
        j = bi._JacobianPoint.from_affine(other_public_key) * private_key
        aff = j.to_affine()
        if aff.infinite:
            raise core.InvalidPacketError('inf')
        return aff.x.to_bytes(32, 'big')
    bi._EllipticCurve.ecdh_shared_secret = ecdh


def _canary_add_as_double():
    orig = bi._JacobianPoint.__add__

    def add(self, other):
        if self.z != 0 and other.z != 0 and self.z == 1 and other.z == 1 and self.x == other.x and self.y != other.y:
            return self.double()        # P + (-P) mistaken for doubling
        return orig(self, other)
    bi._JacobianPoint.__add__ = add


@harness(pre=['0 <= x <= 34 and 0 <= y <= 34'], family='point-validation', twin=True, kernels=K, grid={'curve': [1, 2], 'k': [1, 2, 5, 11]}, timeout=(120, 300),
         canaries=[('ecdh-without-point-validation', _canary_no_validation)],
         bounds='real _EllipticCurve on the curves over F_23 and F_31, every peer coordinate pair 0..34 (beyond p too; split by solver forks, non-linear residues are beyond the solver) x 4 scalars: ecdh_shared_secret raises for every pair that is not a point of the curve and returns the x of k*P (affine reference) or raises for infinity otherwise')
def small_curve_point_validation(x: int, y: int, k: int, curve: int) -> bool:
    with untraced():
        p, a, b, n, g, ec = _curve(curve)
    x, y = C(x, 0, 34), C(y, 0, 34)
    try:
        out = ec.ecdh_shared_secret(k, bi._Point(curve=ec, x=x, y=y))
    except (core.InvalidPacketError, ValueError):
        out = None
    if not _on(p, a, b, x, y):
        return out is None
    with untraced():
        want = _ref_mul(p, a, k, (x, y))
    if want is None:
        return out is None
    return out == want[0].to_bytes(32, 'big')


@harness(pre=['0 <= k <= 260'], family='group-law', twin=True, kernels=K, grid={'curve': [0, 1, 2]}, timeout=(80, 300),
         canaries=[('inverse-points-added-as-doubling', _canary_add_as_double)],
         bounds='generate_public_key(k) on 3 small curves for every scalar 0..260 (several times the group order: infinity, wrap-around): equals k*G of the affine reference; public keys are on the curve')
def small_curve_public_key(k: int, curve: int) -> bool:
    with untraced():
        p, a, b, n, g, ec = _curve(curve)
    k = C(k, 0, 260)
    pt = ec.generate_public_key(k)
    with untraced():
        want = _ref_mul(p, a, k % n, g)
    if want is None:
        return pt.infinite
    return (not pt.infinite) and (pt.x, pt.y) == want and _on(p, a, b, pt.x, pt.y)


@harness(pre=['1 <= ka <= 36 and 1 <= kb <= 36'], family='group-law', twin=True, kernels=K, grid={'curve': [0, 1, 2]}, timeout=(120, 400),
         bounds='ECDH on 3 small curves, both scalars 1..36 (beyond the group order on two of them): d_A*(d_B*G) and d_B*(d_A*G) give the same secret or both hit infinity; the secret is the x of (d_A d_B)*G')
def small_curve_ecdh_symmetric(ka: int, kb: int, curve: int) -> bool:
    with untraced():
        p, a, b, n, g, ec = _curve(curve)
    ka, kb = C(ka, 1, 36), C(kb, 1, 36)
    pa, pb = ec.generate_public_key(ka), ec.generate_public_key(kb)

    def dh(k, pt):
        if pt.infinite:
            return 'inf'
        try:
            return ec.ecdh_shared_secret(k, pt)
        except core.InvalidPacketError:
            return 'inf'
    sa, sb = dh(ka, pb), dh(kb, pa)
    with untraced():
        want = _ref_mul(p, a, (ka * kb) % n, g)
    if pa.infinite or pb.infinite:
        return True
    if want is None:
        return sa == 'inf' and sb == 'inf'
    return sa == sb == want[0].to_bytes(32, 'big')


_POINTS = {}


def _points(curve):
    if curve not in _POINTS:
        p, a, b, n, g, ec = _curve(curve)
        _POINTS[curve] = [(x, y) for x in range(p) for y in range(p) if _on(p, a, b, x, y)]
    return _POINTS[curve]


@harness(pre=['0 <= i <= 40 and 0 <= j <= 40'], family='group-law', twin=True, kernels=K, grid={'curve': [1, 2]}, timeout=(150, 500),
         canaries=[('inverse-points-added-as-doubling', _canary_add_as_double)],
         bounds='_JacobianPoint.__add__ / double / to_affine on the curves over F_23 and F_31: every ordered pair of affine points of the curve (P = Q, P = -Q, y = 0 included; pairs chosen by solver forks): result equals the affine reference')
def small_curve_addition(i: int, j: int, curve: int) -> bool:
    i, j = C(i, 0, 40), C(j, 0, 40)
    with untraced():
        p, a, b, n, g, ec = _curve(curve)
        pts = _points(curve)
        if i >= len(pts) or j >= len(pts):
            return True
        (x1, y1), (x2, y2) = pts[i], pts[j]
        want = _ref_add(p, a, (x1, y1), (x2, y2))
    r = (bi._JacobianPoint(curve=ec, x=x1, y=y1, z=1) + bi._JacobianPoint(curve=ec, x=x2, y=y2, z=1)).to_affine()
    if want is None:
        return r.infinite
    return (not r.infinite) and (r.x, r.y) == want


# ------------------------------------------------------------------------------------------ P-256
_P = bi._EllipticCurve.SECP256R1()


def _p256_points():
    """representative peer coordinates: (label, x, y, on_curve)"""
    p, gx, gy = _P.p, _P.g_x, _P.g_y
    g2 = _P.generate_public_key(2)
    g7 = _P.generate_public_key(0xDEADBEEFCAFE)
    # a valid point whose x is small enough for x + p to fit 32 bytes: (x + p, y) is the same residue, but not a field element
    xs = next(x for x in range(1, 200) if pow((x ** 3 + _P.a * x + _P.b) % p, (p - 1) // 2, p) == 1)
    ys = pow((xs ** 3 + _P.a * xs + _P.b) % p, (p + 1) // 4, p)
    # 872*G: with the fourth private scalar below the shared secret's first octet is 0x00 (a fixed-width encoding matters)
    lz = (0xd2118af490daed5c65cbb1ca729cd72e3fc0ce93fd975e217811e5e7e2aa9a3c, 0x3577403f1e16ea89a2430a9438051e1389bd697e8abe8bc044b094c19b3be207)
    return [('872G (secret starts with 0x00 for scalar 3)', lz[0], lz[1], True), ('small-x', xs, ys, True), ('small-x + p', xs + p, ys, False),('G', gx, gy, True), ('-G', gx, p - gy, True), ('2G', g2.x, g2.y, True), ('kG', g7.x, g7.y, True),
            ('zero', 0, 0, False), ('one', 1, 1, False), ('Gx,Gy+1', gx, gy + 1, False), ('Gx+1,Gy', gx + 1, gy, False), ('Gx,0', gx, 0, False),
            ('Gy,Gx', gy, gx, False), ('Gx,Gy+p', gx, (gy + p) % (1 << 256), False), ('x=p', p, gy, False), ('max', (1 << 256) - 1, (1 << 256) - 1, False),
            ('Gx,Gy^1', gx, gy ^ 1, False), ('Gx,Gy^msb', gx, gy ^ (1 << 255), False)]


_PTS = None


@harness(pre=['0 <= i <= 17 and 0 <= d <= 4'], family='point-validation', twin=True, kernels=K, timeout=(100, 300),
         canaries=[('ecdh-without-point-validation', _canary_no_validation)],
         bounds='P-256, both back ends: 18 representative peer coordinate pairs (6 valid incl. one whose shared secret starts with a zero octet, 12 invalid incl. out-of-range, non-canonical x + p of a valid point, swapped, one-bit-off, y+p) x 5 private scalars (1, 2, n-1, two mid-range): invalid pairs raise in both, valid pairs give identical secrets in both, used twice on the same key object')
def p256_point_validation_both_backends(i: int, d: int) -> bool:
    global _PTS
    from bumble.crypto import cryptography as lib
    i, d = C(i, 0, 17), C(d, 0, 4)
    with untraced():
        if _PTS is None:
            _PTS = _p256_points()
        label, x, y, valid = _PTS[i]
        scalar = [1, 2, _P.n - 1, 0x3F49F6D4A3C55F3874C9B3E3D2103F504AFF607BEB40B7995899B8A6CD3C1ABD, 0x55188B3D32F6BB9A900AFCFBEED4E72A59CB9AC2F19D7CFB6B4FDD49F47FC5FD][d]
        db = scalar.to_bytes(32, 'big')
        xb, yb = x.to_bytes(32, 'big'), y.to_bytes(32, 'big')
        keys = (bi.EccKey.from_private_key_bytes(db), lib.EccKey.from_private_key_bytes(db))
        if keys[0].x != keys[1].x or keys[0].y != keys[1].y:
            return False
        outs = []
        for key in keys:
            # a valid exchange first, then the pair under test: the verdict may not depend on what the key object saw before
            g = key.dh(_P.g_x.to_bytes(32, 'big'), _P.g_y.to_bytes(32, 'big'))
            res = []
            for _ in range(2):
                try:
                    res.append(key.dh(xb, yb))
                except ValueError:
                    res.append(None)
            outs.append((g, res[0], res[1]))
        a, b = outs
        if a != b or a[1] != a[2]:
            return False
        return (a[1] is not None) == valid


# ------------------------------------------------------------------------------------------ CMAC
def _E(k, x):
    return bytes((a + b + 1) % 256 for a, b in zip(x, k))


class _StubECB:
    def __init__(self, key):
        self.key = key

    def encrypt(self, data):
        assert len(data) % 16 == 0
        return b''.join(_E(self.key, data[i:i + 16]) for i in range(0, len(data), 16))


class _StubCBC:
    def __init__(self, key, iv):
        self.key, self.prev = key, iv

    def encrypt(self, data):
        assert len(data) % 16 == 0
        out = []
        for i in range(0, len(data), 16):
            self.prev = _E(self.key, bytes(a ^ b for a, b in zip(self.prev, data[i:i + 16])))
            out.append(self.prev)
        return b''.join(out)


def _dbl(v):
    """multiplication by x in GF(2^128), RFC 4493 2.3"""
    n = int.from_bytes(v, 'big')
    r = (n << 1) & ((1 << 128) - 1)
    if n >> 127:
        r ^= 0x87
    return r.to_bytes(16, 'big')


def _ref_cmac(k, m):
    L = _E(k, bytes(16))
    k1 = _dbl(L)
    k2 = _dbl(k1)
    nb = max(1, (len(m) + 15) // 16)
    if len(m) and len(m) % 16 == 0:
        last = bytes(a ^ b for a, b in zip(m[16 * (nb - 1):], k1))
    else:
        tail = m[16 * (nb - 1):]
        tail = tail + b'\x80' + bytes(15 - len(tail))
        last = bytes(a ^ b for a, b in zip(tail, k2))
    x = bytes(16)
    for i in range(nb - 1):
        x = _E(k, bytes(a ^ b for a, b in zip(x, m[16 * i:16 * i + 16])))
    return _E(k, bytes(a ^ b for a, b in zip(x, last)))


def _canary_k2_from_L():
    orig = bi._CMAC.__init__

    def init(self, key, msg=None, **kw):
        orig(self, key, None, **kw)
        if self._k1[0] == 0x80:
            self._k2 = bi._shift_bytes(self._k1)
        if msg:
            self.update(msg)
    bi._CMAC.__init__ = init


def _canary_pad():
    orig = bi._CMAC.digest

    def digest(self):
        if self._cache_n == 15:
            self._cache_n = 0
            self._data_size = 0
        return orig(self)
    bi._CMAC.digest = digest


# first bytes of L = E_k(0) = k + 1: the values around the two top-bit tests of the sub-key rule
_HEADS = [0x00, 0x3F, 0x40, 0x41, 0x7F, 0x80, 0xBF, 0xC0, 0xC1, 0xFF]


_SPLITS = [99, 0, 1, 15, 16, 17]


@harness(pre=['0 <= h2 <= 3 and 0 <= n <= 40 and 0 <= f <= 1 and 0 <= split <= 5'], family='cmac', twin=True, kernels=K, timeout=(150, 400), grid={'h': list(range(10))},
         canaries=[('k2-without-Rb-when-K1-starts-0x80', _canary_k2_from_L), ('15-byte-tail-treated-as-empty', _canary_pad)],
         bounds='_CMAC with the block cipher stubbed: first byte of L from 10 boundary values x second byte from 4 (so K1[0] covers 0x00, 0x7F, 0x80, 0x81, 0xFF ...), message length 0..40 (every residue mod 16, 0-3 blocks), fed in one or two update() calls split at 0, 1, 15, 16, 17; digest equals the RFC 4493 transcription')
def cmac_subkeys_and_padding(h: int, h2: int, n: int, f: int, split: int) -> bool:
    h2, n, split, f = C(h2, 0, 3), C(n, 0, 40), _SPLITS[C(split, 0, 5)], 0x55 * C(f, 0, 1)
    with untraced():
        key = bytes([(_HEADS[h] - 1) % 256, ([0x00, 0x7F, 0x80, 0xFF][h2] - 1) % 256]) + bytes(range(3, 17))
        msg = bytes((f + 7 * i) % 256 for i in range(n))
        saved = bi._ECB, bi._CBC
        bi._ECB, bi._CBC = _StubECB, _StubCBC
        try:
            c = bi._CMAC(key, b'')
            if split < n:
                c.update(msg[:split])
                c.update(msg[split:])
            else:
                c.update(msg)
            got = c.digest()
        finally:
            bi._ECB, bi._CBC = saved
        return got == _ref_cmac(key, msg)


_LENS = [0, 1, 15, 16, 17, 31, 32, 33, 48, 65]
_BYTES = [0x00, 0x01, 0x7F, 0x80, 0xFE, 0xFF]


@harness(pre=['0 <= n <= 9 and 0 <= kb <= 5 and 0 <= mb <= 5 and 0 <= kpos <= 2'], family='backend-agreement', twin=True, kernels=K, timeout=(150, 400),
         bounds='both back ends, real AES: aes_cmac for 10 message lengths around the block boundaries and e for one block; keys: a fixed key with one byte (first, middle, last) set to one of 6 boundary values; messages from 6 one-parameter families; concrete execution per solver fork (AES is table/FFI code)')
def backends_agree_aes_cmac(n: int, kb: int, mb: int, kpos: int) -> bool:
    from bumble.crypto import cryptography as lib
    n, kpos, kb, mb = C(n, 0, 9), C(kpos, 0, 2), C(kb, 0, 5), C(mb, 0, 5)
    with untraced():
        key = bytearray(bytes.fromhex('2b7e151628aed2a6abf7158809cf4f3c'))
        key[[0, 7, 15][kpos]] = _BYTES[kb]
        key = bytes(key)
        msg = bytes((_BYTES[mb] + 11 * i) % 256 for i in range(_LENS[n]))
        if bi.aes_cmac(msg, key) != lib.aes_cmac(msg, key):
            return False
        blk = bytes((_BYTES[mb] + i) % 256 for i in range(16))
        return bi.e(key, blk) == lib.e(key, blk)


@harness(pre=['0 <= first <= 4 and 0 <= odd <= 33 and 0 <= fn <= 2 and 0 <= kb <= 5'], family='backend-agreement', twin=True, kernels=K, timeout=(150, 400),
         bounds='a back end has no memory: after an earlier call on the same key (e on a block of 0..33 bytes - malformed lengths included, whatever that call returns or raises -, aes_cmac, e on a 0..2-byte block as ah would pass a truncated prand, two malformed calls, or nothing), e (two blocks) / aes_cmac on well-formed input return in BOTH back ends what the built-in back end returns in a fresh state; the FIPS-197 sample block is reproduced afterwards; 6 keys; concrete execution per solver fork')
def backend_results_do_not_depend_on_earlier_calls(first: int, odd: int, fn: int, kb: int) -> bool:
    from bumble.crypto import cryptography as lib
    first, odd, fn, kb = C(first, 0, 4), C(odd, 0, 33), C(fn, 0, 2), C(kb, 0, 5)
    with untraced():
        key = bytes([_BYTES[kb]]) + bytes.fromhex('0102030405060708090a0b0c0d0e0f')
        blk = bytes.fromhex('00112233445566778899aabbccddeeff')
        fips_key = bytes.fromhex('000102030405060708090a0b0c0d0e0f')[::-1]
        want = {0: lambda m: m.e(key, blk), 1: lambda m: m.e(key, blk[:3] + bytes(13)), 2: lambda m: m.aes_cmac(blk + blk[:5], key)}[fn]
        expected = want(bi)
        for m in (bi, lib):
            for k in (key, fips_key):
                try:
                    if first == 1:
                        m.e(k, bytes(range(odd)))
                    elif first == 2:
                        m.aes_cmac(bytes(range(odd)), k)
                    elif first == 3:
                        m.e(k, bytes(range(odd % 3)))
                    elif first == 4:
                        m.e(k, bytes(range(odd)))
                        m.e(k, bytes(range(33 - odd)))
                except Exception:
                    pass
            if want(m) != expected:
                return False
            # FIPS-197 C.1 (bumble's e takes key and block in little-endian order)
            if m.e(fips_key, blk[::-1])[::-1] != bytes.fromhex('69c4e0d86a7b0430d8cdb78070b4c55a'):
                return False
        return True


# ------------------------------------------------------------------------------------------ RPA
def _stub_e(key, data):
    return bytes((a + 2 * b + 1) % 256 for a, b in zip(key, data))


def _canary_resolver_swaps_halves():
    orig = smp.AddressResolver.resolve

    def resolve(self, address):
        b = bytes(address)
        if b[0] == b[3]:
            return None
        return orig(self, address)
    smp.AddressResolver.resolve = resolve


@harness(pre=['len(irk) == 16 and len(other) == 16 and len(rnd) == 6'], family='rpa', twin=True, kernels=K, timeout=(100, 300),
         canaries=[('resolver-misses-when-hash0-equals-prand0', _canary_resolver_swaps_halves)],
         bounds='Address.generate_private_address(irk) with symbolic 16-byte IRK (all-zero included) and symbolic randomness, `e` stubbed injectively: result is a resolvable private address (top bits 01), AddressResolver.resolve and helpers.verify_rpa_with_irk resolve it under the IRK, and not under a key whose first three bytes all differ... (stub-relative)')
def rpa_generate_resolve(irk: bytes, other: bytes, rnd: bytes) -> bool:
    import secrets
    from bumble import helpers
    saved = crypto.e, secrets.token_bytes
    crypto.e = _stub_e
    secrets.token_bytes = lambda n: rnd[:n]
    try:
        addr = hci.Address.generate_private_address(irk)
        if not addr.is_resolvable or addr.address_type != hci.Address.RANDOM_DEVICE_ADDRESS:
            return False
        ab = bytes(addr)
        if (ab[5] >> 6) != 0b01:
            return False
        ident = hci.Address('C0:11:22:33:44:55', hci.Address.RANDOM_DEVICE_ADDRESS)
        ident2 = hci.Address('C0:11:22:33:44:66', hci.Address.RANDOM_DEVICE_ADDRESS)
        # stub-relative notion of "unrelated key": differs from irk somewhere in the three bytes ah() reads
        unrelated = other[0] != irk[0] or other[1] != irk[1] or other[2] != irk[2]
        r = smp.AddressResolver([(other, ident2), (irk, ident)]).resolve(addr)
        if unrelated:
            if r is None or r.to_string(False) != ident.to_string(False):
                return False
            if smp.AddressResolver([(other, ident2)]).resolve(addr) is not None:
                return False
            if helpers.verify_rpa_with_irk(addr, other):
                return False
        elif r is None:
            return False
        return helpers.verify_rpa_with_irk(addr, irk)
    finally:
        crypto.e, secrets.token_bytes = saved


def e2_obligations(tier):
    """wide-range verification conditions over the AST of the real source (vf/e2.py, vf/e2k.py)"""
    from vf import e2k
    return [e2k.cmac_subkeys()]
