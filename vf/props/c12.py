"""C12 — a GATT client sees exactly the server's database, values and notifications.

(a) notification / indication delivery on the real server with symbolic CCCD values per bearer (fixed +
enhanced), `force`, value length; (b) long reads: real Client.read_value against the real server through
stub bearers; (c) termination of every discovery procedure under adversarial responses (loop variant:
strictly increasing starting handle); (d) discovery of concrete database shapes (mixed UUID widths,
included service, descriptors) by the real client against the real server.
"""
import struct

from vf.e1 import harness, untraced, concrete as C
from vf import flags as _flags
from vf import detloop
from vf.props.gattstub import StubDevice, StubBearer, StubEnhancedBearer, make_server, pdus

from bumble import att, gatt, gatt_server, gatt_client, core

ASSUMPTIONS = [
    'client and server are wired through stub bearers under the deterministic loop (no L2CAP / HCI underneath)',
    'discovery termination: the peer answers <= 4 rounds with responses chosen by symbolic indices from a catalogue of adversarial shapes (non-increasing handles, 0xFFFF, empty lists, errors); the assertion is the loop variant, so the bound on rounds is not a bound on the argument',
    'database shapes for end-to-end discovery are the three listed ones; MTU from {23, 24, 48}',
]
P = att.Attribute.Permissions
PR = gatt.Characteristic.Properties
U = core.UUID.from_16_bits
U128 = core.UUID('3A12C182-14E2-4FE0-8C5B-65D7C569F9DB')
K_SRV = ('bumble.gatt_server.Server.notify_subscriber', 'bumble.gatt_server.Server.indicate_subscriber', 'bumble.gatt_server.Server._notify_single_subscriber',
         'bumble.gatt_server.Server._indicate_single_bearer', 'bumble.gatt_server.Server._notify_or_indicate_subscribers', 'bumble.gatt_server.Server.write_cccd')
K_CLI = ('bumble.gatt_client.Client.read_value', 'bumble.gatt_client.Client.send_request', 'bumble.gatt_client.Client.on_gatt_pdu', 'bumble.gatt_client.Client.discover_services',
         'bumble.gatt_client.Client.discover_service', 'bumble.gatt_client.Client.discover_included_services', 'bumble.gatt_client.Client.discover_characteristics',
         'bumble.gatt_client.Client.discover_descriptors', 'bumble.gatt_client.Client.discover_attributes', 'bumble.gatt_client.Client.write_value')


def _B(*xs):
    return bytes(list(xs))


# ------------------------------------------------------------------------------------------
# (a) notifications and indications
def _canary_notify_any_cccd():
    orig = gatt_server.Server._notify_single_subscriber

    async def patched(self, bearer, attribute, value, force):
        subs = self.subscribers.get(bearer, {})
        cccd = subs.get(attribute.handle)
        if not force and cccd and len(cccd) == 2 and any(cccd) and cccd[0] & 1 == 0:
            subs[attribute.handle] = bytes([cccd[0] | 1, cccd[1]])
            try:
                return await orig(self, bearer, attribute, value, force)
            finally:
                subs[attribute.handle] = cccd
        return await orig(self, bearer, attribute, value, force)
    gatt_server.Server._notify_single_subscriber = patched


@harness(pre=['0 <= c1 <= 3 and 0 <= c2 <= 3 and 0 <= l <= 30 and 0 <= v0 <= 255'], family='notify', twin=True, kernels=K_SRV, timeout=(120, 400),
         canaries=[('any-nonzero-cccd-counts-as-notify', _canary_notify_any_cccd)],
         grid={'kind': ['notify', 'indicate'], 'api': ['subscribers', 'subscriber_fixed', 'subscriber_eatt'], 'force': [0, 1]},
         bounds='a characteristic with CCCD values 0..3 (symbolic) on a fixed bearer (MTU 23) and on an enhanced bearer (MTU 27), value length 0..30 (symbolic), notify/indicate through notify_subscribers / notify_subscriber (fixed or enhanced bearer) with and without force: the PDU kind is the one requested, exactly the subscribed (or forced) bearers get one, the value is truncated exactly to MTU-3, an indication is confirmed before the call returns')
def notifications_reach_subscribers(c1: int, c2: int, l: int, v0: int, kind: str, api: str, force: int) -> bool:
    c1, c2, l = C(c1, 0, 3), C(c2, 0, 3), C(l, 0, 30)
    with detloop.running() as loop:
        with untraced():
            ch = gatt.Characteristic(U(0x2A00), PR.READ | PR.NOTIFY | PR.INDICATE, P.READABLE, b'')
            dev, server = make_server([ch])
            fixed = StubBearer(23, handle=1)
            eatt = StubEnhancedBearer(fixed, 27)
            dev.l2cap_channel_manager.le_coc_channels[1] = {0x40: eatt}
            server.subscribers[fixed] = {ch.handle: _B(c1, 0)}
            server.subscribers[eatt] = {ch.handle: _B(c2, 0)}
        value = bytes([v0 for _ in range(l)])
        ch.value = value
        indicate = kind == 'indicate'
        if api == 'subscribers':
            coro = (server.indicate_subscribers if indicate else server.notify_subscribers)(ch, force=bool(force))
        else:
            target = fixed if api == 'subscriber_fixed' else eatt
            coro = (server.indicate_subscriber if indicate else server.notify_subscriber)(target, ch, force=bool(force))
        t = loop.create_task(coro)
        # confirm indications as they arrive
        for _ in range(6):
            loop.run_ready()
            for bearer, sent in ((fixed, pdus(dev)), (eatt, eatt.written)):
                n_ind = sum(1 for p in sent if p[0] == 0x1D)
                done = getattr(bearer, '_confirmed', 0)
                if n_ind > done:
                    bearer._confirmed = done + 1
                    server.on_gatt_pdu(bearer, att.ATT_PDU.from_bytes(b'\x1e'))
        loop.run_ready()
        if not t.done() or t.exception() is not None:
            return False
        bit = 2 if indicate else 1
        want_kind = 0x1D if indicate else 0x1B
        for bearer, sent, cccd, mtu in ((fixed, pdus(dev), c1, 23), (eatt, eatt.written, c2, 27)):
            if api == 'subscribers':
                # force: every bearer with a subscription record gets one
                expected = bool(force) or bool(cccd & bit)
            elif api == 'subscriber_fixed':
                # called with the connection: all its bearers that subscribed (or only that bearer when forced)
                expected = (bearer is fixed) if force else bool(cccd & bit)
            else:
                expected = (bearer is eatt) and (bool(force) or bool(cccd & bit))
            if len(sent) != (1 if expected else 0):
                return False
            if expected:
                p = sent[0]
                if p[0] != want_kind or p[1:3] != struct.pack('<H', ch.handle) or p[3:] != value[:mtu - 3]:
                    return False
        return True


# ------------------------------------------------------------------------------------------
# client <-> server wiring
class ClientBearer:
    """what gatt_client.Client needs from a device.Connection"""
    EVENT_DISCONNECTION = 'disconnection'

    def __init__(self, loop, mtu, handle=1):
        self.loop, self.att_mtu, self.handle = loop, mtu, handle
        self.encryption, self.authenticated = 0, False
        self.server = self.server_bearer = self.client = None
        self.requests = []

    def on(self, *a):
        pass

    def on_att_mtu_update(self, mtu):
        self.att_mtu = mtu

    def send_l2cap_pdu(self, cid, pdu):
        pdu = bytes(pdu)
        self.requests.append(pdu)
        self.loop.call_soon(lambda: self.server.on_gatt_pdu(self.server_bearer, att.ATT_PDU.from_bytes(pdu)))


class ServerDevice(StubDevice):
    def __init__(self, loop):
        super().__init__()
        self.loop, self.client = loop, None

    def send_l2cap_pdu(self, handle, cid, pdu):
        pdu = bytes(pdu)
        self.sent.append((handle, pdu))
        self.loop.call_soon(lambda: self.client.on_gatt_pdu(att.ATT_PDU.from_bytes(pdu)))


def wire(loop, services, mtu):
    dev = ServerDevice(loop)
    server = gatt_server.Server(dev)
    for s in services:
        server.add_service(s)
    cb = ClientBearer(loop, mtu)
    sb = StubBearer(mtu, handle=1)
    cb.server, cb.server_bearer = server, sb
    client = gatt_client.Client(cb)
    dev.client = client
    return client, server, cb, sb, dev


def _finish(loop, t, n=400):
    for _ in range(n):
        loop.run_ready()
        if t.done():
            break
        if not loop.ready and not loop.advance():
            break
    return t.done()


@harness(pre=['0 <= l <= 3 * 64 and 0 <= v0 <= 255'], family='long-read', twin=True, kernels=K_CLI + ('bumble.gatt_server.Server.on_att_read_request', 'bumble.gatt_server.Server.on_att_read_blob_request'),
         timeout=(120, 400), grids=[(('quick',), {'mtu': [23, 24]}), (('thorough',), {'mtu': [23, 24, 33, 48, 65]})],
         bounds='real Client.read_value against the real server: ATT_MTU per condition, value length 0..192 (symbolic; includes k*(MTU-1) and MTU-3 boundaries), content byte symbolic: the returned value equals the stored one')
def long_read_returns_the_value(l: int, v0: int, mtu: int) -> bool:
    l = C(l, 0, 192)
    with detloop.running() as loop:
        with untraced():
            ch = gatt.Characteristic(U(0x2A00), PR.READ, P.READABLE, b'')
            client, server, cb, sb, dev = wire(loop, [gatt.Service(U(0x1800), [ch])], mtu)
        value = bytes([v0 for _ in range(l)])
        ch.value = value
        t = loop.create_task(client.read_value(ch.handle))
        if not _finish(loop, t) or t.exception() is not None:
            return False
        return t.result() == value


@harness(pre=['0 <= li <= 3'], family='long-read', kernels=K_CLI, timeout=(120, 400), grid={'mtu': [23, 33, 65, 129, 257, 513, 517]},
         bounds='values of 0, 1, 511 and 512 bytes at ATT_MTU 23, 33, 65, 129, 257, 513, 517 (MTU-1 divides 512 for several of them): read_value returns the whole value')
def long_read_of_maximum_values(li: int, mtu: int) -> bool:
    l = [0, 1, 511, 512][C(li, 0, 3)]
    with untraced():
        with detloop.running() as loop:
            ch = gatt.Characteristic(U(0x2A00), PR.READ, P.READABLE, bytes((i * 5 + 1) % 256 for i in range(l)))
            client, server, cb, sb, dev = wire(loop, [gatt.Service(U(0x1800), [ch])], mtu)
            t = loop.create_task(client.read_value(ch.handle))
            if not _finish(loop, t, 4000) or t.exception() is not None:
                return False
            return t.result() == ch.value


@harness(pre=['0 <= l <= 20 and 0 <= v0 <= 255'], family='write', kernels=K_CLI + ('bumble.gatt_server.Server.on_att_write_request', 'bumble.gatt_server.Server.on_att_write_command'),
         timeout=(120, 400), grid={'with_response': [0, 1]},
         bounds='Client.write_value (request and command) of 0..20 symbolic bytes at MTU 23: the server holds the value afterwards')
def writes_take_effect(l: int, v0: int, with_response: int) -> bool:
    l = C(l, 0, 20)
    with detloop.running() as loop:
        with untraced():
            ch = gatt.Characteristic(U(0x2A00), PR.READ | PR.WRITE | PR.WRITE_WITHOUT_RESPONSE, P.READABLE | P.WRITEABLE, b'old')
            client, server, cb, sb, dev = wire(loop, [gatt.Service(U(0x1800), [ch])], 23)
        value = bytes([v0 for _ in range(l)])
        t = loop.create_task(client.write_value(ch.handle, value, with_response=bool(with_response)))
        if not _finish(loop, t) or t.exception() is not None:
            return False
        return ch.value == value


# ------------------------------------------------------------------------------------------
# (c) termination of the discovery procedures under adversarial responses
def _err(op, code=0x0A):
    return att.ATT_Error_Response(request_opcode_in_error=op, attribute_handle_in_error=1, error_code=code)


def _catalogue(request):
    """adversarial responses to one discovery request, as a function of its starting handle"""
    s = getattr(request, 'starting_handle', 1)
    hi = min(0xFFFF, s + 2)
    op = request.op_code
    if isinstance(request, att.ATT_Read_By_Group_Type_Request):
        mk = lambda items: att.ATT_Read_By_Group_Type_Response(length=6, attribute_data_list=b''.join(struct.pack('<HH', a, b) + b'\x00\x18' for a, b in items))
        return [mk([(s, hi)]), mk([(s, s)]), mk([(s, 0xFFFF)]), mk([(max(1, s - 1), max(1, s - 1))]), mk([(s, max(0, s - 1))]), mk([]), mk([(s, hi), (hi, hi)]), _err(op), _err(op, 0x0E), mk([(s, s), (max(1, s - 1), max(1, s - 1))])]
    if isinstance(request, att.ATT_Find_By_Type_Value_Request):
        mk = lambda items: att.ATT_Find_By_Type_Value_Response(handles_information_list=b''.join(struct.pack('<HH', a, b) for a, b in items))
        return [mk([(s, hi)]), mk([(s, s)]), mk([(s, 0xFFFF)]), mk([(max(1, s - 1), max(1, s - 1))]), mk([(s, max(0, s - 1))]), mk([]), _err(op), _err(op, 0x0E), mk([(s, s), (max(1, s - 1), max(1, s - 1))])]
    if isinstance(request, att.ATT_Read_By_Type_Request):
        # characteristic declarations (7 bytes: handle, props, value handle, uuid16) or include declarations (8 bytes)
        # an entry is a declaration handle, or (declaration handle, declared value handle) when the value handle lies about its position
        mk = lambda hs: att.ATT_Read_By_Type_Response(length=7, attribute_data_list=b''.join(
            struct.pack('<HBHH', h[0] if isinstance(h, tuple) else h, 2, h[1] if isinstance(h, tuple) else min(0xFFFF, h + 1), 0x2A00) for h in hs))
        return [mk([s]), mk([s, (hi, max(0, s - 1))]), mk([max(1, s - 1)]), mk([0xFFFF]), mk([0]), mk([]), _err(op), _err(op, 0x0E), mk([s, max(1, s - 1)]), mk([hi, s, max(1, s - 1)])]
    if isinstance(request, att.ATT_Find_Information_Request):
        mk = lambda hs: att.ATT_Find_Information_Response(format=1, information_data=b''.join(struct.pack('<HH', h, 0x2902) for h in hs))
        return [mk([s]), mk([s, hi]), mk([max(1, s - 1)]), mk([0xFFFF]), mk([0]), mk([]), _err(op), _err(op, 0x0E), mk([s, max(1, s - 1)]), mk([hi, s, max(1, s - 1)])]
    return [_err(op)]


def _canary_no_progress_check():
    orig = gatt_client.Client.discover_attributes

    async def discover_attributes(self):
        starting_handle, attributes = 0x0001, []
        while True:
            response = await self.send_request(att.ATT_Find_Information_Request(starting_handle=starting_handle, ending_handle=0xFFFF))
            if response.op_code == att.Opcode.ATT_ERROR_RESPONSE:
                break
            for handle, uuid in response.information:
                attributes.append(gatt_client.AttributeProxy(self, handle, 0, core.UUID.from_bytes(uuid)))
            starting_handle = (attributes[-1].handle + 1) if attributes else starting_handle     # no check that the handle advanced
        return attributes
    gatt_client.Client.discover_attributes = discover_attributes


_PROCS = ['discover_services', 'discover_service', 'discover_included_services', 'discover_characteristics', 'discover_descriptors', 'discover_attributes']


@harness(pre=['0 <= r1 <= 9 and 0 <= r2 <= 9 and 0 <= r3 <= 9'], family='termination', twin=True, kernels=K_CLI, timeout=(120, 400),
         canaries=[('loop-without-progress-check', _canary_no_progress_check)],
         grids=[(('quick',), {'proc': _PROCS, 'r4': [0, 2, 5, 8]}), (('thorough',), {'proc': _PROCS, 'r4': [0, 1, 2, 3, 4, 5, 6, 7, 8, 9]})],
         bounds='each discovery procedure against a peer that answers up to 4 rounds with responses picked by symbolic indices from the adversarial catalogue (empty lists, handles below the requested range, ranges ending below their start, lists that start in range and end below it, a declaration in range whose declared value handle lies below the range, errors; then Attribute Not Found): every request after the first starts strictly above the previous one (the loop variant), at most 5 requests are needed, and the procedure returns or raises')
def discovery_terminates(r1: int, r2: int, r3: int, r4: int, proc: str) -> bool:
    picks = [C(r1, 0, 9), C(r2, 0, 9), C(r3, 0, 9), r4]
    with untraced():
        with detloop.running() as loop:
            cb = ClientBearer(loop, 23)
            client = gatt_client.Client(cb)
            starts = []

            async def fake_send_request(request):
                starts.append(getattr(request, 'starting_handle', None))
                if len(starts) > 8:
                    raise RuntimeError('no progress')          # more requests than any terminating run needs
                cat = _catalogue(request)
                k = len(starts) - 1
                if k < 4:
                    return cat[picks[k] % len(cat)]
                return _err(request.op_code)
            client.send_request = fake_send_request
            svc = gatt_client.ServiceProxy(client, 1, 0xFFFF, U(0x1800), True)
            chp = gatt_client.CharacteristicProxy(client, 2, 0xFFFF, U(0x2A00), 2)
            if proc == 'discover_services':
                coro = client.discover_services()
            elif proc == 'discover_service':
                coro = client.discover_service(U(0x1800))
            elif proc == 'discover_included_services':
                coro = client.discover_included_services(svc)
            elif proc == 'discover_characteristics':
                coro = client.discover_characteristics([], svc)
            elif proc == 'discover_descriptors':
                coro = client.discover_descriptors(chp)
            else:
                coro = client.discover_attributes()
            t = loop.create_task(coro)
            if not _finish(loop, t):
                return False
            if t.exception() is not None and isinstance(t.exception(), RuntimeError) and 'no progress' in str(t.exception()):
                return False
            for a, b in zip(starts, starts[1:]):
                if a is not None and b is not None and b <= a:
                    return False
            return True


def svc_end(server):
    return next(a.end_group_handle for a in server.attributes if isinstance(a, gatt.Service) and a.uuid == U(0x1800))


@harness(pre=['0 <= which <= 2 and 0 <= m <= 1'], family='discovery', twin=True, kernels=K_CLI, timeout=(120, 400),
         bounds='a service with three characteristics, each followed by a user description and (for two of them) a CCCD: discover_characteristics filtered by ONE of the three UUIDs (symbolic) at ATT_MTU 23 or 48 returns exactly that characteristic with the handle range that ends before the next characteristic, and discover_descriptors on it returns exactly its own descriptors')
def filtered_characteristic_discovery(which: int, m: int) -> bool:
    which, m = C(which, 0, 2), C(m, 0, 1)
    with untraced():
        with detloop.running() as loop:
            chars = [gatt.Characteristic(U(0x2A00 + j), PR.READ | (PR.NOTIFY if j != 1 else 0), P.READABLE, bytes([j]),
                                         descriptors=[gatt.Descriptor(U(0x2901), P.READABLE, bytes([0x40 + j]))]) for j in range(3)]
            client, server, cb, sb, dev = wire(loop, [gatt.Service(U(0x1800), chars), gatt.Service(U(0x1801), [gatt.Characteristic(U(0x2A05), PR.READ, P.READABLE, b'z')])], [23, 48][m])

            async def run():
                svc = (await client.discover_service(U(0x1800)))[0]
                found = await client.discover_characteristics([U(0x2A00 + which)], svc)
                if len(found) != 1:
                    return None
                c = found[0]
                ds = await c.discover_descriptors()
                return c, [(d.handle, d.type) for d in ds]
            t = loop.create_task(run())
            if not _finish(loop, t) or t.exception() is not None or t.result() is None:
                return False
            c, ds = t.result()
            real = chars[which]
            # the characteristic's own attributes: everything after its value up to the next declaration (value handle - 1) or the end of the service
            end = (chars[which + 1].handle - 2) if which < 2 else svc_end(server)
            want = [(a.handle, a.type) for a in server.attributes if real.handle < a.handle <= end]
            return c.handle == real.handle and c.uuid == real.uuid and ds == want and c.end_group_handle == end


@harness(pre=['0 <= l <= 10 and 0 <= v0 <= 255 and 0 <= how <= 1'], family='notify', twin=True, kernels=K_CLI + ('bumble.gatt_client.Client.on_att_handle_value_indication', 'bumble.gatt_server.Server.indicate_subscriber'), timeout=(120, 400),
         bounds='the real client receives an indication for a handle it has NO local subscriber for (the CCCD was written raw, or the server forces the indication): it still confirms, so the real server\'s indicate_subscriber returns without waiting for its time-out; value length 0..10 symbolic')
def indication_without_local_subscriber_is_confirmed(l: int, v0: int, how: int) -> bool:
    how = C(how, 0, 1)
    with detloop.running() as loop:
        with untraced():
            ch = gatt.Characteristic(U(0x2A00), PR.READ | PR.INDICATE, P.READABLE, b'')
            client, server, cb, sb, dev = wire(loop, [gatt.Service(U(0x1800), [ch])], 23)
        ch.value = bytes([v0 for _ in range(l)])
        if how == 0:
            server.subscribers[sb] = {ch.handle: b'\x02\x00'}
            t = loop.create_task(server.indicate_subscriber(sb, ch))
        else:
            t = loop.create_task(server.indicate_subscriber(sb, ch, force=True))
        for _ in range(20):
            loop.run_ready()             # no clock advance: the 30 s time-out must not be what ends the call
        return t.done() and t.exception() is None and [p for p in cb.requests if p[0] == 0x1E] == [b'\x1e']


# ------------------------------------------------------------------------------------------
# (d) end-to-end discovery of concrete database shapes
def _shapes(k):
    if k == 0:
        return [gatt.Service(U(0x1800), [gatt.Characteristic(U(0x2A00), PR.READ, P.READABLE, b'a'), gatt.Characteristic(U128, PR.READ | PR.NOTIFY, P.READABLE, b'bb')]),
                gatt.Service(U128, [gatt.Characteristic(U(0x2A19), PR.READ, P.READABLE, b'c')])]
    if k == 1:
        inner = gatt.Service(U(0x180F), [gatt.Characteristic(U(0x2A19), PR.READ, P.READABLE, b'\x64')], primary=False)
        return [inner, gatt.Service(U(0x1812), [gatt.Characteristic(U128, PR.READ | PR.WRITE, P.READABLE | P.WRITEABLE, b'x' * 30,
                                                                         descriptors=[gatt.Descriptor(U(0x2901), P.READABLE, b'desc')])], included_services=[inner])]
    return [gatt.Service(U(0x1800 + i), [gatt.Characteristic(U(0x2A00 + j), PR.READ, P.READABLE, bytes([i, j])) for j in range(3)]) for i in range(4)]


@harness(pre=['0 <= k <= 2 and 0 <= m <= 2'], family='discovery', kernels=K_CLI, timeout=(240, 600),
         bounds='the real client discovers three database shapes (mixed 16/128-bit UUIDs in one service and across services; included secondary service + descriptor + long value; 4 services x 3 characteristics) at ATT_MTU 23, 24, 48: services, handle ranges, characteristics (UUID, properties, value handle), descriptors and read values equal the server\'s database')
def discovery_reconstructs_the_database(k: int, m: int) -> bool:
    k, m = C(k, 0, 2), C(m, 0, 2)
    with untraced():
        with detloop.running() as loop:
            services = _shapes(k)
            client, server, cb, sb, dev = wire(loop, services, [23, 24, 48][m])

            async def run():
                found = await client.discover_services()
                out = []
                for s in found:
                    chars = await s.discover_characteristics()
                    cl = []
                    for c in chars:
                        ds = await c.discover_descriptors()
                        v = await c.read_value()
                        cl.append((c.uuid, int(c.properties), c.handle, bytes(v), sorted((d.type, d.handle) for d in ds if d.type != gatt.GATT_CLIENT_CHARACTERISTIC_CONFIGURATION_DESCRIPTOR)))
                    out.append((s.uuid, s.handle, s.end_group_handle, cl))
                return out
            t = loop.create_task(run())
            if not _finish(loop, t, 20000) or t.exception() is not None:
                return False
            want = []
            for s in services:
                if not getattr(s, 'primary', True) or s.type != gatt.GATT_PRIMARY_SERVICE_ATTRIBUTE_TYPE:
                    continue
                cl = []
                for c in s.characteristics:
                    ds = sorted((d.type, d.handle) for d in c.descriptors if d.type != gatt.GATT_CLIENT_CHARACTERISTIC_CONFIGURATION_DESCRIPTOR)
                    cl.append((c.uuid, int(c.properties), c.handle, bytes(c.value), ds))
                want.append((s.uuid, s.handle, s.end_group_handle, cl))
            return t.result() == want


@harness(pre=['0 <= wide <= 1 and 0 <= order <= 1 and 0 <= m <= 2 and 0 <= two <= 1'], family='discovery', twin=True, kernels=K_CLI + ('bumble.gatt_server.Server.add_service', 'bumble.gatt.IncludedServiceDeclaration.__init__'), timeout=(240, 600),
         bounds='a primary service that includes one or two other services (16- or 128-bit UUID; a secondary service registered before the including one, or a primary service registered only through the inclusion) at ATT_MTU 23, 24, 48: discover_services returns every primary service with pairwise disjoint handle ranges equal to the server\'s, and discover_included_services returns exactly the included services (UUID, start and end handle)')
def included_services_discovered(wide: int, order: int, m: int, two: int) -> bool:
    wide, order, m, two = C(wide, 0, 1), C(order, 0, 1), C(m, 0, 2), C(two, 0, 1)
    with untraced():
        with detloop.running() as loop:
            inner = gatt.Service(U128 if wide else U(0x180F), [gatt.Characteristic(U(0x2A19), PR.READ, P.READABLE, b'\x64')], primary=(order != 0))
            inner2 = gatt.Service(U(0x180A), [gatt.Characteristic(U(0x2A29), PR.READ, P.READABLE, b'm')], primary=False)
            inc = [inner, inner2] if two else [inner]
            outer = gatt.Service(U(0x1812), [gatt.Characteristic(U(0x2A4D), PR.READ, P.READABLE, b'r')], included_services=inc)
            last = gatt.Service(U(0x1800), [gatt.Characteristic(U(0x2A00), PR.READ, P.READABLE, b'n')])
            services = {0: [inner, outer, last], 1: [outer, last]}[order]
            client, server, cb, sb, dev = wire(loop, services, [23, 24, 48][m])

            async def run():
                found = await client.discover_services()
                incs = {}
                for sv in found:
                    incs[sv.handle] = [(i.uuid, i.handle, i.end_group_handle) for i in await client.discover_included_services(sv)]
                return [(sv.uuid, sv.handle, sv.end_group_handle) for sv in found], incs
            t = loop.create_task(run())
            if not _finish(loop, t, 20000) or t.exception() is not None:
                return False
            found, incs = t.result()
            every = [outer, last] + inc
            prim = sorted(((sv.uuid, sv.handle, sv.end_group_handle) for sv in every if sv.type == gatt.GATT_PRIMARY_SERVICE_ATTRIBUTE_TYPE), key=lambda x: x[1])
            if found != prim:
                return False
            spans = sorted((sv.handle, sv.end_group_handle) for sv in every)
            if any(a[1] >= b[0] for a, b in zip(spans, spans[1:])) or any(lo > hi for lo, hi in spans):
                return False                      # service groups never overlap or nest
            want = [(i.uuid, i.handle, i.end_group_handle) for i in inc]
            return incs.get(outer.handle) == want and all(v == [] for h, v in incs.items() if h != outer.handle)


_flags.int_format_placeholder = True
