"""Property harness modules.  Each module cXX.py exposes conditions(tier) -> list[vf.e1.Cond]
(default: everything registered with @harness in that module)."""
import importlib
from typing import Dict, List

_cache: Dict[str, list] = {}


def module(prop: str):
    return importlib.import_module(f'vf.props.{prop.lower()}')


def conditions(prop: str, tier: str = 'thorough') -> List:
    key = prop
    if key not in _cache:
        from vf import e1
        m = module(prop)
        if hasattr(m, 'conditions'):
            conds = list(m.conditions())
        else:
            conds = e1.registered(m.__name__)
        names = set()
        for c in conds:
            if c.name in names:
                raise RuntimeError(f'duplicate condition name {c.name} in {prop}')
            names.add(c.name)
        _cache[key] = conds
    return [c for c in _cache[key] if tier in c.tiers]


def find(prop: str, name: str):
    conditions(prop)
    for c in _cache[prop]:
        if c.name == name:
            return c
    raise KeyError(f'{prop}:{name}')
