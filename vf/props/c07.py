"""C07 — LE credit-based channels: exact byte stream, credit discipline, progress.

Real LeCreditBasedChannel.write/process_output/on_pdu/on_credits and the real ChannelManager
connection-request/response and credit handlers, two managers joined by an in-memory wire whose
messages are delivered under a symbolic (order-preserving) schedule; an observer on the wire keeps the
credit ledger.
"""
import struct

from vf.e1 import harness, untraced, concrete as C
from vf import flags as _flags
from vf import detloop
from vf.props.l2capstub import Wire, HConn

from bumble import l2cap

ASSUMPTIONS = [
    'MTU/MPS geometry is scaled below the protocol minimum of 23 in the transfer conditions (the channel code has no clamp and is size-generic); legal full-range values are covered by the connection set-up conditions',
    'zero-length writes are outside (documented to assert)',
    'the receiver keeps consuming: every SDU handed to the sink is accepted',
    'order-preserving wire; the schedule chooses which pending frame is delivered next per direction',
]
K = ('bumble.l2cap.LeCreditBasedChannel.write', 'bumble.l2cap.LeCreditBasedChannel.process_output', 'bumble.l2cap.LeCreditBasedChannel.on_pdu',
     'bumble.l2cap.LeCreditBasedChannel.on_credits', 'bumble.l2cap.ChannelManager.on_l2cap_le_flow_control_credit',
     'bumble.l2cap.ChannelManager.on_l2cap_le_credit_based_connection_request', 'bumble.l2cap.ChannelManager.on_l2cap_le_credit_based_connection_response',
     'bumble.l2cap.ChannelManager.on_l2cap_credit_based_connection_request', 'bumble.l2cap.ChannelManager.on_l2cap_credit_based_connection_response')


class Mgr:
    """stand-in manager for a directly constructed channel: records data frames and control frames"""

    def __init__(self):
        self.frames, self.ctrl, self._id = [], [], 0

    def send_pdu(self, connection, cid, pdu):
        self.frames.append(bytes(pdu) if not isinstance(pdu, bytes) else pdu)

    def send_control_frame(self, connection, cid, frame):
        self.ctrl.append(frame)

    def next_identifier(self, connection):
        self._id = self._id % 255 + 1
        return self._id

    def on_channel_closed(self, channel):
        pass


def mk(mgr, mtu, mps, credits, peer_mtu, peer_mps, peer_credits):
    return l2cap.LeCreditBasedChannel(mgr, HConn(1), 0x80, 0x40, 0x41, mtu, mps, credits, peer_mtu, peer_mps, peer_credits, True)


def _canary_send_without_credit():
    def process_output(self):
        while self.credits >= 0 and (self.out_sdu is not None or self.out_queue):
            if self.out_sdu is None:
                payload = b''
                while self.out_queue and len(payload) < self.peer_mtu:
                    chunk = self.out_queue[0][: self.peer_mtu - len(payload)]
                    payload += chunk
                    self.out_queue[0] = self.out_queue[0][len(chunk):]
                    if len(self.out_queue[0]) == 0:
                        self.out_queue.popleft()
                self.out_sdu = struct.pack('<H', len(payload)) + payload
            packet = self.out_sdu[: self.peer_mps]
            self.send_pdu(packet)
            self.credits -= 1
            self.out_sdu = None if len(packet) == len(self.out_sdu) else self.out_sdu[len(packet):]
        if self.out_sdu is None and not self.out_queue:
            self.drained.set()
    l2cap.LeCreditBasedChannel.process_output = process_output


def _transfer(mtu, mps, credits, sizes, fill, sched):
    """sender -> receiver with the receiver's credit frames delivered according to `sched` (list of 0/1: 0 = deliver a
    data frame if any, 1 = deliver a credit frame if any); returns (ok, delivered bytes, written bytes)"""
    tx_m, rx_m = Mgr(), Mgr()
    tx = mk(tx_m, 23, 23, credits, mtu, mps, 3)           # sender: peer (receiver) mtu/mps, `credits` to start with
    rx = mk(rx_m, mtu, mps, 3, 23, 23, credits)           # receiver granted `credits`
    got = []
    rx.sink = got.append
    written = b''
    ledger = credits                                      # credits the sender holds, kept by the observer
    sent = 0
    for i, n in enumerate(sizes):
        data = bytes([fill for _ in range(n)])
        written += data
        tx.write(data)
    # the symbolic prefix, then alternate for as long as the transfer can need (3 frames per 1-byte SDU at MTU 1, one credit round trip per frame)
    steps = list(sched) + [0, 1] * (4 * (sum(sizes) + len(sizes)) + 20)
    for s in steps:
        progressed = False
        if s == 0 and sent < len(tx_m.frames):
            f = tx_m.frames[sent]
            sent += 1
            if len(f) > mps:
                return False, b'', written                # frame larger than the peer's MPS
            ledger -= 1
            if ledger < 0:
                return False, b'', written                # frame sent without a credit
            rx.on_pdu(f)
            progressed = True
        elif s == 1 and rx_m.ctrl:
            c = rx_m.ctrl.pop(0)
            ledger += c.credits
            tx.on_credits(c.credits)
            progressed = True
        if not progressed and sent == len(tx_m.frames) and not rx_m.ctrl:
            break
    delivered = b''.join(got)
    if any(len(s) > mtu for s in got):
        return False, delivered, written                  # SDU larger than the peer's MTU
    return True, delivered, written


@harness(pre=['0 <= n2 <= 3 and 0 <= fill <= 255 and 0 <= s1 <= 1 and 0 <= s2 <= 1 and 0 <= s3 <= 1 and 0 <= s4 <= 1'], family='transfer', twin=True,
         kernels=K, timeout=(60, 240), canaries=[('frame-sent-with-zero-credits', _canary_send_without_credit)],
         grids=[(('quick',), {'mtu': [3, 6], 'mps': [2, 5], 'credits': [1, 2], 'n1': [1, 4, 9]}), (('thorough',), {'mtu': [1, 2, 3, 6, 8], 'mps': [1, 2, 3, 5, 8], 'credits': [1, 2, 4], 'n1': [1, 2, 3, 4, 7, 9, 13]})],
         bounds='one direction: a write of n1 bytes (per condition) and one of 0..3 bytes (symbolic size), symbolic content byte, peer MTU/MPS/initial credits per condition (scaled 1..8), first 4 schedule steps symbolic (data frame vs credit frame first): bytes delivered == bytes written, every frame <= MPS, every SDU <= MTU, never a frame without a credit, transfer completes')
def one_direction(n2: int, fill: int, s1: int, s2: int, s3: int, s4: int, mtu: int, mps: int, credits: int, n1: int) -> bool:
    with detloop.running():
        sizes = [n1] + ([n2] if n2 else [])
        ok, delivered, written = _transfer(mtu, mps, credits, sizes, fill, [s1, s2, s3, s4])
        return ok and delivered == written


# ------------------------------------------------------------------------------------------
# connection set-up through the real managers: parameters are exchanged, peer-chosen CIDs are honoured
def _canary_enhanced_own_cid():
    orig = l2cap.ChannelManager.on_l2cap_credit_based_connection_request

    def patched(self, connection, cid, request):
        orig(self, connection, cid, request)
        table = self.le_coc_channels.get(connection.handle, {})
        for k in list(table):
            ch = table.pop(k)
            table[ch.source_cid] = ch
    l2cap.ChannelManager.on_l2cap_credit_based_connection_request = patched


@harness(pre=['2 <= credits <= 65535 and 1 <= scredits <= 65535'],
         family='setup', twin=True, kernels=K, timeout=(60, 240), grid={'enhanced': [0, 1], 'peer_cid': [0x40, 0x41, 0x7F], 'mtu': [23, 65535], 'mps': [23, 65533], 'smtu': [512], 'smps': [23, 100]}, canaries=[('enhanced-table-keyed-by-own-cid', _canary_enhanced_own_cid)],
         bounds='a peer opens an LE / enhanced credit-based channel with source CID 0x40 (equal to bumble\'s own allocation), 0x41 or 0x7F (different) and symbolic initial credits 1..65535 on both sides, MTU/MPS at the ends of their legal ranges (per condition): the response carries the server parameters, the channel holds the peer\'s, a credit frame for the peer\'s CID reaches the channel, and a write is framed for the peer CID within its MPS/credits')
def peer_chosen_cid(credits: int, scredits: int, enhanced: int, peer_cid: int, mtu: int, mps: int, smtu: int, smps: int) -> bool:
    with detloop.running() as loop:
        w = Wire(handles=(1,))
        accepted = []
        def on_channel(ch):
            accepted.append(ch)
            ch.write(b'\x09')           # the application may write as soon as it is handed the channel
        w.mgr[1].create_le_credit_based_server(l2cap.LeCreditBasedChannelSpec(psm=0x80, mtu=smtu, mps=smps, max_credits=scredits), handler=on_channel)
        conn = w.conns[1][1]
        if enhanced:
            req = l2cap.L2CAP_Credit_Based_Connection_Request(identifier=7, spsm=0x80, mtu=mtu, mps=mps, initial_credits=credits, source_cid=[peer_cid])
        else:
            req = l2cap.L2CAP_LE_Credit_Based_Connection_Request(identifier=7, le_psm=0x80, source_cid=peer_cid, mtu=mtu, mps=mps, initial_credits=credits)
        sent_frames = []
        real_send = w.mgr[1].send_control_frame
        w.mgr[1].send_control_frame = lambda c, cid, frame: (sent_frames.append(frame), real_send(c, cid, frame))
        w.mgr[1].on_pdu(conn, l2cap.L2CAP_LE_SIGNALING_CID, bytes(req))
        loop.run_ready()
        if len(accepted) != 1 or len(w.q) != 2 or len(sent_frames) != 1:
            return False
        ch = accepted[0]
        # the connection response precedes the first data frame (otherwise the peer, still connecting, drops the data)
        if w.q[0][2] != l2cap.L2CAP_LE_SIGNALING_CID or w.q[1][2] != peer_cid or w.q[1][3] != b'\x01\x00\x09':
            return False
        w.q.pop(0)
        w.q.pop(0)
        rsp = sent_frames[0]            # (the frame object: parsing it back would build enum members from symbolic bytes)
        if rsp.identifier != 7 or rsp.mtu != smtu or rsp.mps != smps or rsp.initial_credits != scredits:
            return False
        dcid = rsp.destination_cid[0] if enhanced else rsp.destination_cid
        if dcid != ch.source_cid or ch.destination_cid != peer_cid:
            return False
        if (ch.peer_mtu, ch.peer_mps, ch.credits, ch.mtu, ch.mps, ch.peer_credits) != (mtu, mps, credits - 1, smtu, smps, scredits):
            return False
        # the peer returns credits for ITS cid
        before = ch.credits
        if before != credits - 1:
            return False              # one credit was spent on the frame written in the callback
        w.mgr[1].on_pdu(conn, l2cap.L2CAP_LE_SIGNALING_CID, bytes(l2cap.L2CAP_LE_Flow_Control_Credit(identifier=8, cid=peer_cid, credits=2)))
        if ch.credits != before + 2:
            return False
        # data is sent to the peer's cid
        ch.write(b'\x01\x02\x03')
        loop.run_ready()
        if not w.q:
            return False
        side, handle, cid, payload = w.q[0]
        return cid == peer_cid and payload == b'\x03\x00\x01\x02\x03' and ch.credits == before + 1 and credits >= 2


@harness(pre=['1 <= n <= 40 and 0 <= fill <= 255'], family='transfer', twin=True, kernels=K, timeout=(60, 200), grid={'own': [5, 23]},
         bounds='asymmetric MTUs: the receiver announced MTU 40, the sender only 5 or 23 (so the receiver\'s peer_mtu is smaller than its own mtu); one SDU of 1..40 bytes (symbolic length and fill), MPS 23, ample credits: delivered intact (the receiver judges incoming SDUs by ITS OWN MTU)')
def receiver_mtu_larger_than_senders(n: int, fill: int, own: int) -> bool:
    tx_m, rx_m = Mgr(), Mgr()
    tx = mk(tx_m, own, 23, 10, 40, 23, 10)
    rx = mk(rx_m, 40, 23, 10, own, 23, 10)
    got = []
    rx.sink = got.append
    data = bytes([fill for _ in range(n)])
    tx.write(data)
    for f in tx_m.frames:
        if len(f) > 23:
            return False
        rx.on_pdu(f)
    return got == [data]


@harness(pre=['1 <= max_credits <= 12 and 0 <= frames <= 14'], family='receiver', kernels=K, timeout=(60, 200),
         bounds='receiver side: peer max credits 1..12 (symbolic), 0..14 one-byte SDUs received (symbolic): the ledger never exceeds the maximum, credits are returned before the sender starves, total granted = initial + returned')
def receiver_replenishes(max_credits: int, frames: int) -> bool:
    with detloop.running():
        m = Mgr()
        rx = mk(m, 23, 23, 1, 23, 23, max_credits)
        got = []
        rx.sink = got.append
        sender_credits = max_credits
        for i in range(frames):
            if sender_credits == 0:
                return False                    # sender starved although the receiver keeps consuming
            sender_credits -= 1
            rx.on_pdu(b'\x01\x00' + bytes([i]))
            while m.ctrl:
                c = m.ctrl.pop(0)
                sender_credits += c.credits
            if sender_credits > max_credits or rx.peer_credits != sender_credits:
                return False
        return len(got) == frames


_flags.int_format_placeholder = True     # log f-strings with symbolic ints are not the subject here (see vf/flags.py)


def e2_obligations(tier):
    """wide-range verification conditions over the AST of the real source (vf/e2.py, vf/e2k.py)"""
    from vf import e2k
    return [e2k.coc_segment_iteration(), e2k.coc_on_pdu()]
