"""C06 — the virtual link connects the right peers and delivers only between them.

Controller level: three real Controllers on one LocalLink driven by HCI command objects under the
deterministic loop (own-address types, who advertises, which address is asked for, order of connects and
disconnects are symbolic; payload bytes symbolic).  Device level: three real Devices for the "caller is
handed that connection and no other" clause.  Scanning: advertising and scan-response payloads.
"""
import asyncio

from vf.e1 import harness, untraced, concrete as C
from vf import flags as _flags
from vf import detloop, detenv

from bumble import hci, controller as ctl, link as lnk, device as bdev, host as bhost
from bumble.core import PhysicalTransport

ASSUMPTIONS = [
    'three controllers / devices on one LocalLink; at most two simultaneous connections; link delivery is FIFO through the deterministic loop',
    'configuration choices (address types, advertisers, order of operations) are symbolic integers split by solver forks; ACL payload bytes are symbolic at controller level',
    'BR/EDR is covered at controller level only (connection + data + disconnect between two controllers)',
]
K = ('bumble.link.LocalLink.send_acl_data', 'bumble.link.LocalLink.find_le_controller', 'bumble.link.LocalLink.find_classic_controller', 'bumble.link.LocalLink.send_ll_control_pdu',
     'bumble.link.LocalLink.send_advertising_pdu', 'bumble.controller.Controller.on_advertising_pdu', 'bumble.controller.Controller.create_le_connection',
     'bumble.controller.Controller.on_le_connect_ind', 'bumble.controller.Controller.on_le_disconnected', 'bumble.controller.Controller.on_link_acl_data',
     'bumble.controller.Controller.allocate_connection_handle', 'bumble.controller.Controller.on_hci_le_create_connection_command', 'bumble.controller.Controller.on_hci_disconnect_command')


def _B(*xs):
    return bytes(list(xs))


class _Tap:
    def __init__(self):
        self.packets = []

    def on_packet(self, data):
        self.packets.append(hci.HCI_Packet.from_bytes(data))

    def of(self, cls):
        return [p for p in self.packets if isinstance(p, cls)]


def _settle(loop, n=40):
    for _ in range(n):
        loop.run_ready()
        if not loop.ready and not loop.advance():
            break
    loop.run_ready()


def _world(loop, n=3):
    link = lnk.LocalLink()
    cs, taps = [], []
    for i in range(n):
        c = ctl.Controller(f'C{i}', link=link, public_address=f'{0xA0 + i:02X}:00:00:00:00:0{i}')
        c.random_address = hci.Address(f'F{i}:11:11:11:11:1{i}')
        t = _Tap()
        c.host = t
        cs.append(c)
        taps.append(t)
    loop.run_ready()
    return link, cs, taps


def _advertise(x, public, data=b'', scan_rsp=b''):
    x.on_hci_command_packet(hci.HCI_LE_Set_Advertising_Parameters_Command(
        advertising_interval_min=32, advertising_interval_max=32, advertising_type=0, own_address_type=0 if public else 1, peer_address_type=0,
        peer_address=hci.Address.ANY, advertising_channel_map=7, advertising_filter_policy=0))
    if data:
        x.on_hci_command_packet(hci.HCI_LE_Set_Advertising_Data_Command(advertising_data=data))
    if scan_rsp:
        x.on_hci_command_packet(hci.HCI_LE_Set_Scan_Response_Data_Command(scan_response_data=scan_rsp))
    x.on_hci_command_packet(hci.HCI_LE_Set_Advertising_Enable_Command(advertising_enable=1))


def _create(c, target, own_public):
    c.on_hci_command_packet(hci.HCI_LE_Create_Connection_Command(
        le_scan_interval=16, le_scan_window=16, initiator_filter_policy=0, peer_address_type=target.address_type, peer_address=target,
        own_address_type=0 if own_public else 1, connection_interval_min=6, connection_interval_max=12, max_latency=0, supervision_timeout=100, min_ce_length=0, max_ce_length=0))


def _le_done(tap):
    return [e for e in tap.of(hci.HCI_LE_Connection_Complete_Event) + tap.of(hci.HCI_LE_Enhanced_Connection_Complete_Event) if e.status == 0]


def _send(c, handle, payload):
    pdu = _B(len(payload), 0, 4, 0) + payload
    c.on_hci_acl_data_packet(hci.HCI_AclDataPacket(handle, 0, 0, len(pdu), pdu))
    return pdu


def _addr_of(c, public):
    return c.public_address if public else c.random_address


@harness(pre=['0 <= p0 <= 255 and 0 <= p1 <= 255'], family='le-controllers', twin=True, kernels=K, timeout=(120, 400),
         grid={'central_public': [0, 1], 'periph_public': [0, 1], 'third': [0, 1], 'closer': [0, 1]},
         bounds='3 controllers: central own-address type x peripheral own-address type x a third advertiser present or not x who disconnects (per condition); ACL payload bytes symbolic in both directions: exactly the requested advertiser is connected, both ends report each other\'s address (type included) with live handles, data goes once to the peer and nobody else in both directions, the disconnection is reported to both')
def le_connect_data_disconnect(p0: int, p1: int, central_public: int, periph_public: int, third: int, closer: int) -> bool:
    with detloop.running() as loop:
        with untraced():
            link, (A, B, X), (ta, tb, tx) = _world(loop)
            _advertise(B, periph_public)
            if third:
                _advertise(X, True)
            _settle(loop)
            target = _addr_of(B, periph_public)
            _create(A, target, central_public)
            _settle(loop)
        ca, cb, cx = _le_done(ta), _le_done(tb), _le_done(tx)
        if len(ca) != 1 or len(cb) != 1 or cx:
            return False
        ea, eb = ca[0], cb[0]
        if bytes(ea.peer_address) != bytes(target) or ea.peer_address_type != target.address_type:
            return False
        mine = _addr_of(A, central_public)
        if bytes(eb.peer_address) != bytes(mine) or eb.peer_address_type != mine.address_type:
            return False
        # data A -> B and B -> A
        pdu = _send(A, ea.connection_handle, _B(p0))
        loop.run_ready()
        pdu2 = _send(B, eb.connection_handle, _B(p1, p0))
        _settle(loop)
        got_b, got_a, got_x = tb.of(hci.HCI_AclDataPacket), ta.of(hci.HCI_AclDataPacket), tx.of(hci.HCI_AclDataPacket)
        if got_x or len(got_b) != 1 or len(got_a) != 1:
            return False
        if got_b[0].data != pdu or got_b[0].connection_handle != eb.connection_handle or got_a[0].data != pdu2 or got_a[0].connection_handle != ea.connection_handle:
            return False
        # disconnect
        (A if closer == 0 else B).on_hci_command_packet(hci.HCI_Disconnect_Command(connection_handle=(ea if closer == 0 else eb).connection_handle, reason=0x13))
        _settle(loop)
        da, db = ta.of(hci.HCI_Disconnection_Complete_Event), tb.of(hci.HCI_Disconnection_Complete_Event)
        return (len(da) == 1 and len(db) == 1 and da[0].status == 0 and db[0].status == 0
                and da[0].connection_handle == ea.connection_handle and db[0].connection_handle == eb.connection_handle and not tx.of(hci.HCI_Disconnection_Complete_Event))


@harness(pre=['0 <= p0 <= 255 and 0 <= drop <= 1 and 0 <= again <= 1'], family='le-controllers', kernels=K, timeout=(120, 400),
         bounds='one central with two peripherals: connect both, optionally disconnect the first, connect a third peripheral (or the first again): handles of live connections are distinct on the central and each ACL payload (symbolic) reaches exactly the addressed peer')
def handles_distinct_and_routing(p0: int, drop: int, again: int) -> bool:
    drop, again = C(drop, 0, 1), C(again, 0, 1)
    with detloop.running() as loop:
        with untraced():
            link, cs, taps = _world(loop, 4)
            A, P1, P2, P3 = cs
            ta, t1, t2, t3 = taps
            live = {}
            for P in (P1, P2):
                _advertise(P, True)
                _settle(loop)
                n = len(_le_done(ta))
                _create(A, P.public_address, True)
                _settle(loop)
                done = _le_done(ta)
                if len(done) != n + 1:
                    return False
                live[P] = done[-1].connection_handle
                P.on_hci_command_packet(hci.HCI_LE_Set_Advertising_Enable_Command(advertising_enable=0))
            if drop:
                A.on_hci_command_packet(hci.HCI_Disconnect_Command(connection_handle=live.pop(P1), reason=0x13))
                _settle(loop)
            nxt = P1 if (again and drop) else P3
            _advertise(nxt, True)
            _settle(loop)
            n = len(_le_done(ta))
            _create(A, nxt.public_address, True)
            _settle(loop)
            done = _le_done(ta)
            if len(done) != n + 1:
                return False
            live[nxt] = done[-1].connection_handle
            if len(set(live.values())) != len(live):
                return False
        # each payload reaches exactly its peer
        taps_of = {P1: t1, P2: t2, P3: t3}
        for k, (P, h) in enumerate(sorted(live.items(), key=lambda kv: kv[1])):
            before = {Q: len(t.of(hci.HCI_AclDataPacket)) for Q, t in taps_of.items()}
            pdu = _send(A, h, _B(p0, k))
            _settle(loop)
            for Q, t in taps_of.items():
                got = t.of(hci.HCI_AclDataPacket)[before[Q]:]
                if Q is P:
                    if len(got) != 1 or got[0].data != pdu:
                        return False
                elif got:
                    return False
        return True


@harness(pre=['0 <= p0 <= 255'], family='classic-controllers', kernels=K + ('bumble.controller.Controller.on_hci_create_connection_command', 'bumble.controller.Controller.on_classic_connection_complete'),
         timeout=(120, 400), grid={'closer': [0, 1]},
         bounds='BR/EDR between two of three controllers: connection complete on both ends with each other\'s address, symbolic payload delivered once to the peer only, disconnection reported to both')
def classic_connect_data_disconnect(p0: int, closer: int) -> bool:
    with detloop.running() as loop:
        with untraced():
            link, (A, B, X), (ta, tb, tx) = _world(loop)
            A.on_hci_command_packet(hci.HCI_Create_Connection_Command(bd_addr=B.public_address, packet_type=0xCC18, page_scan_repetition_mode=1, reserved=0, clock_offset=0, allow_role_switch=1))
            _settle(loop)
            B.on_hci_command_packet(hci.HCI_Accept_Connection_Request_Command(bd_addr=A.public_address, role=hci.Role.PERIPHERAL))
            _settle(loop)
        ca = [e for e in ta.of(hci.HCI_Connection_Complete_Event) if e.status == 0]
        cb = [e for e in tb.of(hci.HCI_Connection_Complete_Event) if e.status == 0]
        if len(ca) != 1 or len(cb) != 1 or tx.of(hci.HCI_Connection_Complete_Event) or tx.of(hci.HCI_Connection_Request_Event):
            return False
        if bytes(ca[0].bd_addr) != bytes(B.public_address) or bytes(cb[0].bd_addr) != bytes(A.public_address):
            return False
        pdu = _send(A, ca[0].connection_handle, _B(p0))
        _settle(loop)
        got_b = tb.of(hci.HCI_AclDataPacket)
        if len(got_b) != 1 or got_b[0].data != pdu or got_b[0].connection_handle != cb[0].connection_handle or tx.of(hci.HCI_AclDataPacket):
            return False
        (A if closer == 0 else B).on_hci_command_packet(hci.HCI_Disconnect_Command(connection_handle=(ca if closer == 0 else cb)[0].connection_handle, reason=0x13))
        _settle(loop)
        return len(ta.of(hci.HCI_Disconnection_Complete_Event)) == 1 and len(tb.of(hci.HCI_Disconnection_Complete_Event)) == 1


@harness(pre=['0 <= a0 <= 255 and 0 <= a1 <= 255 and 0 <= s0 <= 255'], family='scanning', kernels=K + ('bumble.controller.LegacyAdvertiser.send_advertising_data',), timeout=(120, 400),
         grid={'clause': ['adv', 'rsp'], 'active': [0, 1], 'na': [1, 3], 'ns': [0, 2]},
         bounds='a scanner and two advertisers with different advertising data (symbolic bytes) and scan-response data (symbolic byte): every report carries the advertising data of ITS advertiser byte for byte; when scanning actively the scan-response report carries the scan-response data; when scanning passively no scan-response report is produced')
def scan_reports(a0: int, a1: int, s0: int, clause: str, active: int, na: int, ns: int) -> bool:
    with detloop.running() as loop:
        with untraced():
            link, (S, P, Q), (ts, tp, tq) = _world(loop)
            S.on_hci_command_packet(hci.HCI_LE_Set_Scan_Parameters_Command(le_scan_type=active, le_scan_interval=16, le_scan_window=16, own_address_type=0, scanning_filter_policy=0))
            S.on_hci_command_packet(hci.HCI_LE_Set_Scan_Enable_Command(le_scan_enable=1, filter_duplicates=0))
        adv_p = _B(na - 1 + 1, 0xFF, a0, a1)[:1 + na] if na > 1 else _B(1, 0x09)
        adv_p = _B(len(adv_p[1:]),) + adv_p[1:]
        adv_q = _B(2, 0x09, 0x51)
        rsp_p = _B(2, 0x08, s0)[:1 + ns] if ns else b''
        _advertise(P, True, adv_p, rsp_p)
        _advertise(Q, True, adv_q, b'')
        _settle(loop)
        reports = []
        for e in ts.of(hci.HCI_LE_Advertising_Report_Event):
            reports.extend(e.reports)
        for e in ts.of(hci.HCI_LE_Extended_Advertising_Report_Event):
            reports.extend(e.reports)
        if not reports:
            return False
        for r in reports:
            is_rsp = int(r.event_type) in (int(hci.HCI_LE_Advertising_Report_Event.EventType.SCAN_RSP),) or (int(r.event_type) & 0x08 and not int(r.event_type) & 0x10 and int(r.event_type) > 4)
            who_p = bytes(r.address) == bytes(P.public_address)
            if is_rsp and clause == 'adv':
                continue                 # (scan-response reports are judged by the 'rsp' conditions)
            if not is_rsp and clause == 'rsp':
                continue
            if is_rsp:
                if not active:
                    return False
                if bytes(r.data) != (rsp_p if who_p else b''):
                    return False
            elif bytes(r.data) != (adv_p if who_p else adv_q):
                return False
        return True


@harness(pre=['0 <= first <= 1 and 0 <= p0 <= 255'], family='classic-controllers', twin=True, timeout=(120, 400),
         kernels=K + ('bumble.controller.Controller.on_hci_create_connection_command', 'bumble.controller.Controller.send_lmp_packet', 'bumble.controller.Controller.on_lmp_packet'),
         bounds='one controller pages two peers at the same time; the peers accept in either order (symbolic): each Connection Complete on the initiator names the peer that accepted and arrives only after that peer accepted; both peers report the initiator; a symbolic payload on each handle reaches that peer only')
def classic_two_pages_at_once(first: int, p0: int) -> bool:
    first = C(first, 0, 1)
    with detloop.running() as loop:
        with untraced():
            link, (A, B, X), (ta, tb, tx) = _world(loop)
            for peer in (B, X):
                A.on_hci_command_packet(hci.HCI_Create_Connection_Command(bd_addr=peer.public_address, packet_type=0xCC18, page_scan_repetition_mode=1, reserved=0, clock_offset=0, allow_role_switch=1))
            _settle(loop)
        order = [(B, tb), (X, tx)] if first == 0 else [(X, tx), (B, tb)]
        done_before = 0
        handles = {}
        for peer, tap in order:
            if len([e for e in ta.of(hci.HCI_Connection_Complete_Event)]) != done_before:
                return False                      # a completion arrived before its peer accepted
            peer.on_hci_command_packet(hci.HCI_Accept_Connection_Request_Command(bd_addr=A.public_address, role=hci.Role.PERIPHERAL))
            _settle(loop)
            evs = ta.of(hci.HCI_Connection_Complete_Event)
            if len(evs) != done_before + 1 or evs[-1].status != 0 or bytes(evs[-1].bd_addr) != bytes(peer.public_address):
                return False
            pe = [e for e in tap.of(hci.HCI_Connection_Complete_Event) if e.status == 0]
            if len(pe) != 1 or bytes(pe[0].bd_addr) != bytes(A.public_address):
                return False
            handles[peer] = evs[-1].connection_handle
            done_before += 1
        if len(set(handles.values())) != 2:
            return False
        for peer, tap in order:
            n_b, n_x = len(tb.of(hci.HCI_AclDataPacket)), len(tx.of(hci.HCI_AclDataPacket))
            pdu = _send(A, handles[peer], _B(p0))
            _settle(loop)
            d_b, d_x = len(tb.of(hci.HCI_AclDataPacket)) - n_b, len(tx.of(hci.HCI_AclDataPacket)) - n_x
            if (d_b, d_x) != ((1, 0) if peer is B else (0, 1)) or tap.of(hci.HCI_AclDataPacket)[-1].data != pdu:
                return False
        return True


def _adv_reports(tap):
    out = []
    for e in tap.of(hci.HCI_LE_Advertising_Report_Event):
        out.extend(e.reports)
    for e in tap.of(hci.HCI_LE_Extended_Advertising_Report_Event):
        out.extend(e.reports)
    return out


@harness(pre=['0 <= a0 <= 255 and 0 <= b0 <= 255 and a0 != b0 and 0 <= frag <= 1'], family='scanning', twin=True, timeout=(120, 400),
         kernels=K + ('bumble.controller.AdvertisingSet.send_extended_advertising_data', 'bumble.controller.Controller.on_hci_le_set_extended_advertising_data_command'),
         bounds='an extended advertising set whose data is replaced while it stays enabled (symbolic bytes before and after; set in one command or in two fragments): reports the scanner receives after the change carry the new data byte for byte, reports before it the old data')
def extended_advertising_data_changed_while_enabled(a0: int, b0: int, frag: int) -> bool:
    frag = C(frag, 0, 1)
    with detloop.running() as loop:
        with untraced():
            link, (S, P, Q), (ts, tp, tq) = _world(loop)
            P.le_features |= hci.LeFeatureMask.LE_EXTENDED_ADVERTISING
            S.on_hci_command_packet(hci.HCI_LE_Set_Scan_Parameters_Command(le_scan_type=0, le_scan_interval=16, le_scan_window=16, own_address_type=0, scanning_filter_policy=0))
            S.on_hci_command_packet(hci.HCI_LE_Set_Scan_Enable_Command(le_scan_enable=1, filter_duplicates=0))
            P.on_hci_command_packet(hci.HCI_LE_Set_Extended_Advertising_Parameters_Command(
                advertising_handle=1, advertising_event_properties=0x13, primary_advertising_interval_min=32, primary_advertising_interval_max=32, primary_advertising_channel_map=7,
                own_address_type=0, peer_address_type=0, peer_address=hci.Address.ANY, advertising_filter_policy=0, advertising_tx_power=0, primary_advertising_phy=1,
                secondary_advertising_max_skip=0, secondary_advertising_phy=1, advertising_sid=0, scan_request_notification_enable=0))
        Op = hci.HCI_LE_Set_Extended_Advertising_Data_Command.Operation
        old, new = _B(3, 0xFF, a0, 0x11), _B(3, 0xFF, b0, 0x22)
        P.on_hci_command_packet(hci.HCI_LE_Set_Extended_Advertising_Data_Command(advertising_handle=1, operation=Op.COMPLETE_DATA, fragment_preference=0, advertising_data=old))
        P.on_hci_command_packet(hci.HCI_LE_Set_Extended_Advertising_Enable_Command(enable=1, advertising_handles=[1], durations=[0], max_extended_advertising_events=[0]))
        for _ in range(3):
            loop.run_ready()
            loop.advance()
        loop.run_ready()
        before = _adv_reports(ts)
        if not before or any(bytes(r.data) != old for r in before):
            return False
        if frag:
            P.on_hci_command_packet(hci.HCI_LE_Set_Extended_Advertising_Data_Command(advertising_handle=1, operation=Op.FIRST_FRAGMENT, fragment_preference=0, advertising_data=new[:2]))
            P.on_hci_command_packet(hci.HCI_LE_Set_Extended_Advertising_Data_Command(advertising_handle=1, operation=Op.LAST_FRAGMENT, fragment_preference=0, advertising_data=new[2:]))
        else:
            P.on_hci_command_packet(hci.HCI_LE_Set_Extended_Advertising_Data_Command(advertising_handle=1, operation=Op.COMPLETE_DATA, fragment_preference=0, advertising_data=new))
        loop.run_ready()
        n0 = len(_adv_reports(ts))
        for _ in range(3):
            loop.advance()
            loop.run_ready()
        after = _adv_reports(ts)[n0:]
        return len(after) >= 1 and all(bytes(r.data) == new for r in after)


# ------------------------------------------------------------------------------------------
# device level: Device.connect returns the connection to the requested address
def _dsettle(loop, n=400):
    for _ in range(n):
        loop.run_ready()
        if not loop.ready and not loop.advance():
            break


@harness(pre=['0 <= both <= 1 and 0 <= which <= 1 and 0 <= incoming <= 1'], family='devices', kernels=K + ('bumble.device.Device.connect', 'bumble.device.Device.on_connection'), timeout=(240, 600),
         bounds='three Devices: the central connects to one of two peripherals (symbolic choice) while one or both advertise, optionally after the other peripheral has connected TO the central (the central also advertises): connect() returns a connection whose peer is the requested address, both devices\' connection events name each other, and a GATT-channel payload reaches that peer only')
def device_connect_returns_requested_peer(both: int, which: int, incoming: int) -> bool:
    both, which, incoming = C(both, 0, 1), C(which, 0, 1), C(incoming, 0, 1)
    with untraced():
        detenv.reset()
        with detloop.running() as loop:
            link = lnk.LocalLink()
            devs = []
            for i, addr in enumerate(('F0:F1:F2:F3:F4:F5', 'F5:F4:F3:F2:F1:F0', 'F7:F6:F5:F4:F3:F2')):
                c = ctl.Controller(f'C{i}', link=link)
                d = bdev.Device(f'D{i}', address=hci.Address(addr), host=bhost.Host(c, c))
                devs.append(d)
            ts = [loop.create_task(d.power_on()) for d in devs]
            _dsettle(loop)
            central, p = devs[0], [devs[1], devs[2]]
            target, other = p[which], p[1 - which]
            if incoming:
                loop.create_task(central.start_advertising(auto_restart=False))
                _dsettle(loop)
                t_in = loop.create_task(other.connect(central.random_address))
                _dsettle(loop)
                if not t_in.done() or t_in.exception():
                    return False
            loop.create_task(target.start_advertising(auto_restart=False))
            if both and not incoming:
                loop.create_task(other.start_advertising(auto_restart=False))
            _dsettle(loop)
            t = loop.create_task(central.connect(target.random_address))
            _dsettle(loop)
            if not t.done() or t.exception():
                return False
            conn = t.result()
            if conn.peer_address != target.random_address:
                return False
            tconns = [c for c in target.connections.values()]
            if len(tconns) != 1 or tconns[0].peer_address != central.random_address:
                return False
            if not incoming and other.connections:
                return False
            got = {1: [], 2: []}
            for k in (1, 2):
                devs[k].l2cap_channel_manager.register_fixed_channel(0x3F, lambda h, pdu, k=k: got[k].append(bytes(pdu)))
            central.send_l2cap_pdu(conn.handle, 0x3F, b'\x07\x08')
            _dsettle(loop)
            tk, ok = (1 if which == 0 else 2), (2 if which == 0 else 1)
            return got[tk] == [b'\x07\x08'] and got[ok] == []




class _SlowClassicLink(lnk.LocalLink):
    """LocalLink whose BR/EDR (LMP) traffic has a constant, order-preserving latency"""
    latency = 0.0

    def send_lmp_packet(self, sender_controller, receiver_address, packet):
        if not self.latency:
            return super().send_lmp_packet(sender_controller, receiver_address, packet)
        receiver = self.find_classic_controller(receiver_address)
        if receiver is None:
            return super().send_lmp_packet(sender_controller, receiver_address, packet)
        asyncio.get_running_loop().call_later(self.latency, lambda: receiver.on_lmp_packet(sender_controller.public_address, packet))


def _run_until(loop, t):
    for _ in range(4000):
        loop.run_ready()
        if loop.timers and loop.timers[0][0] <= t:
            loop.advance()
        elif not loop.ready:
            break
    loop.now = max(loop.now, t)


@harness(pre=['0 <= slow <= 1 and 0 <= b_public <= 1 and 0 <= le_first <= 1'], family='devices', kernels=K + ('bumble.device.Device.connect', 'bumble.device.Device.connect_classic', 'bumble.device.Device.on_connection'), timeout=(240, 600),
         bounds='two dual-mode Devices: A advertises and pages B over BR/EDR while B connects to A over LE, B using its public or its random address as LE own address, LMP traffic instant or with a constant latency (so the LE connection completes while the page is pending), either order of the two requests: each connect() returns the connection of the transport, role and peer it asked for, and each device ends with exactly one connection per transport')
def device_dual_mode_connect(slow: int, b_public: int, le_first: int) -> bool:
    slow, b_public, le_first = C(slow, 0, 1), C(b_public, 0, 1), C(le_first, 0, 1)
    with untraced():
        from bumble.core import PhysicalTransport
        detenv.reset()
        with detloop.running() as loop:
            link = _SlowClassicLink()
            link.latency = 0.2 if slow else 0.0
            addrs = ['F0:F0:F0:F0:F0:F0', 'F1:F1:F1:F1:F1:F1']
            ctls = [ctl.Controller(f'C{i}', link=link, public_address=addrs[i]) for i in range(2)]
            devs = [bdev.Device(f'D{i}', address=hci.Address(addrs[i]), host=bhost.Host(ctls[i], ctls[i])) for i in range(2)]
            for d in devs:
                d.classic_enabled = True
                loop.create_task(d.power_on())
            _dsettle(loop)
            a, b = devs
            seen = []
            a.on(a.EVENT_CONNECTION, seen.append)
            loop.create_task(a.start_advertising(auto_restart=False, advertising_interval_min=1.0, advertising_interval_max=1.0))
            _run_until(loop, loop.now + 0.01)

            def classic():
                return loop.create_task(a.connect(b.public_address, transport=PhysicalTransport.BR_EDR, timeout=5.0))

            def le():
                return loop.create_task(b.connect(a.random_address, transport=PhysicalTransport.LE,
                                                  own_address_type=hci.OwnAddressType.PUBLIC if b_public else hci.OwnAddressType.RANDOM))
            if le_first:
                t_le = le()
                _run_until(loop, loop.now + 0.02)
                t_cl = classic()
            else:
                t_cl = classic()
                _run_until(loop, loop.now + 0.02)
                t_le = le()
            _run_until(loop, loop.now + 3.0)
            if not (t_cl.done() and t_le.done()) or t_cl.exception() or t_le.exception():
                return False
            c_cl, c_le = t_cl.result(), t_le.result()
            if c_cl.transport != PhysicalTransport.BR_EDR or c_cl.role != hci.Role.CENTRAL or c_cl.peer_address != b.public_address:
                return False
            if c_le.transport != PhysicalTransport.LE or c_le.role != hci.Role.CENTRAL or c_le.peer_address != a.random_address:
                return False
            for d in devs:
                kinds = sorted(c.transport for c in d.connections.values())
                if kinds != sorted([PhysicalTransport.LE, PhysicalTransport.BR_EDR]):
                    return False
            on_a = [c for c in seen if c.transport == PhysicalTransport.BR_EDR]
            return len(on_a) == 1 and on_a[0] is c_cl


@harness(pre=['0 <= pub <= 1 and 0 <= out_first <= 1'], family='devices', twin=True, kernels=K + ('bumble.device.Device.on_le_connection', 'bumble.device.Device.start_advertising'), timeout=(240, 600),
         bounds='a device M that is peripheral and central at once: M advertises (legacy) with its public or its random address (symbolic), optionally connects OUT to another peripheral first, then a central connects to the address M advertises: M reports that incoming connection with exactly the address it advertised as self_address, equal to the peer_address the central reports, and the outgoing connection keeps its own addresses')
def device_peripheral_and_central_addresses(pub: int, out_first: int) -> bool:
    pub, out_first = C(pub, 0, 1), C(out_first, 0, 1)
    with untraced():
        detenv.reset()
        with detloop.running() as loop:
            link = lnk.LocalLink()
            devs = []
            for i, addr in enumerate(('F0:F1:F2:F3:F4:F5', 'F5:F4:F3:F2:F1:F0', 'F7:F6:F5:F4:F3:F2')):
                c = ctl.Controller(f'C{i}', link=link, public_address=addr.replace('F', 'E', 1))
                devs.append(bdev.Device(f'D{i}', address=hci.Address(addr), host=bhost.Host(c, c)))
            for d in devs:
                loop.create_task(d.power_on())
            _dsettle(loop)
            M, P, Cn = devs
            own = hci.OwnAddressType.PUBLIC if pub else hci.OwnAddressType.RANDOM
            advertised = M.public_address if pub else M.random_address
            loop.create_task(M.start_advertising(auto_restart=False, own_address_type=own))
            _dsettle(loop)
            if out_first:
                loop.create_task(P.start_advertising(auto_restart=False))
                _dsettle(loop)
                t_out = loop.create_task(M.connect(P.random_address))
                _dsettle(loop)
                if not t_out.done() or t_out.exception():
                    return False
                if t_out.result().peer_address != P.random_address or t_out.result().role != hci.Role.CENTRAL:
                    return False
            incoming = []
            M.on(M.EVENT_CONNECTION, incoming.append)
            t_in = loop.create_task(Cn.connect(advertised))
            _dsettle(loop)
            if not t_in.done() or t_in.exception() or len(incoming) != 1:
                return False
            cc, mc = t_in.result(), incoming[0]
            return cc.peer_address == advertised and mc.self_address == advertised and mc.role == hci.Role.PERIPHERAL and mc.peer_address == cc.self_address


@harness(pre=['0 <= closer <= 1 and 0 <= bystander_adv <= 1'], family='devices', kernels=K + ('bumble.device.Device.create_advertising_set', 'bumble.controller.AdvertisingSet.send_extended_advertising_data'), timeout=(240, 600),
         bounds='the peripheral advertises with an extended advertising set that has its OWN random address (different from the controller-wide addresses); a bystander may advertise too: the central connects to the set address, both ends report matching addresses, data flows in both directions to the peer only, and a disconnection by either side is reported to both')
def device_extended_set_with_own_address(closer: int, bystander_adv: int) -> bool:
    closer, bystander_adv = C(closer, 0, 1), C(bystander_adv, 0, 1)
    with untraced():
        from bumble.device import AdvertisingParameters
        detenv.reset()
        with detloop.running() as loop:
            link = lnk.LocalLink()
            devs, ctls = [], []
            for i, addr in enumerate(('F0:F1:F2:F3:F4:F5', 'F5:F4:F3:F2:F1:F0', 'F7:F6:F5:F4:F3:F2')):
                c = ctl.Controller(f'C{i}', link=link)
                ctls.append(c)
                devs.append(bdev.Device(f'D{i}', address=hci.Address(addr), host=bhost.Host(c, c)))
            ctls[1].le_features |= hci.LeFeatureMask.LE_EXTENDED_ADVERTISING
            for d in devs:
                loop.create_task(d.power_on())
            _dsettle(loop)
            central, periph, other = devs
            set_address = hci.Address('C5:11:22:33:44:55', hci.Address.RANDOM_DEVICE_ADDRESS)
            t = loop.create_task(periph.create_advertising_set(
                advertising_parameters=AdvertisingParameters(own_address_type=hci.OwnAddressType.RANDOM, primary_advertising_interval_min=1.0), random_address=set_address))
            if bystander_adv:
                loop.create_task(other.start_advertising(auto_restart=False))
            _dsettle(loop)
            if not t.done() or t.exception():
                return False
            pconns = []
            periph.on(periph.EVENT_CONNECTION, pconns.append)
            tc = loop.create_task(central.connect(set_address))
            _dsettle(loop)
            if not tc.done() or tc.exception() or len(pconns) != 1:
                return False
            cconn, pconn = tc.result(), pconns[0]
            if cconn.peer_address != pconn.self_address or other.connections:
                return False
            got = {0: [], 1: [], 2: []}
            for k in (0, 1, 2):
                devs[k].l2cap_channel_manager.register_fixed_channel(0x3F, lambda h, pdu, k=k: got[k].append(bytes(pdu)))
            central.send_l2cap_pdu(cconn.handle, 0x3F, b'\x01\x02')
            periph.send_l2cap_pdu(pconn.handle, 0x3F, b'\x03')
            _dsettle(loop)
            if got != {0: [b'\x03'], 1: [b'\x01\x02'], 2: []}:
                return False
            ends = {'c': [], 'p': []}
            cconn.on(cconn.EVENT_DISCONNECTION, lambda r: ends['c'].append(r))
            pconn.on(pconn.EVENT_DISCONNECTION, lambda r: ends['p'].append(r))
            td = loop.create_task((cconn if closer == 0 else pconn).disconnect())
            _dsettle(loop)
            return td.done() and td.exception() is None and len(ends['c']) == 1 and len(ends['p']) == 1


_flags.int_format_placeholder = True
