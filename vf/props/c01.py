"""C01 — HCI packets survive serialise/parse unchanged, for every packet class.

Generated from the registries of the current tree (vf/gencodec.py): every command, event, LE
sub-event and per-command Command Complete; hand-written conditions for the data packets, the two
commands with hand-written parsers, vendor events and unknown opcodes / event codes.
"""
import struct

from vf.e1 import harness, registered
from vf import flags as _flags
from vf import gencodec

from bumble import hci

ASSUMPTIONS = [
    'well-formed bytes = a parameter block of exactly the length the class layout prescribes (length/count bytes consistent), reserved bits zero for the data packets',
    'field equality: ints ==, byte-likes and Address by bytes() (address type is not on the wire for parse_address fields)',
    'enum/flag-typed bytes range over representatives read from the enum class (members, 0, max, one undeclared)',
]

K_DATA = ('bumble.hci.HCI_Packet.from_bytes', 'bumble.hci.HCI_AclDataPacket.from_bytes', 'bumble.hci.HCI_AclDataPacket.__bytes__',
          'bumble.hci.HCI_SynchronousDataPacket.from_bytes', 'bumble.hci.HCI_SynchronousDataPacket.__bytes__',
          'bumble.hci.HCI_IsoDataPacket.from_bytes', 'bumble.hci.HCI_IsoDataPacket.__bytes__')


def _B(*xs):
    return bytes(list(xs))


# ---- ACL
@harness(pre=['0 <= handle <= 0xFFF and 0 <= pb <= 3 and 0 <= bc <= 3 and 0 <= d0 <= 255 and 0 <= d1 <= 255'], family='data', twin=True, kernels=K_DATA,
         bounds='ACL: all header fields full width, 0..2 data bytes', grid={'n': [0, 1, 2]})
def acl_fields_rt(handle: int, pb: int, bc: int, d0: int, d1: int, n: int) -> bool:
    data = _B(d0, d1)[:n]
    p = hci.HCI_AclDataPacket(connection_handle=handle, pb_flag=pb, bc_flag=bc, data_total_length=n, data=data)
    q = hci.HCI_Packet.from_bytes(bytes(p))
    return (type(q) is hci.HCI_AclDataPacket and (q.connection_handle, q.pb_flag, q.bc_flag, q.data_total_length, q.data) == (handle, pb, bc, n, data)
            and bytes(q) == bytes(p))


@harness(pre=['0 <= b1 <= 255 and 0 <= b2 <= 255 and 0 <= d0 <= 255 and 0 <= d1 <= 255'], family='data', kernels=K_DATA,
         bounds='ACL: both header bytes symbolic, 0..2 data bytes', grid={'n': [0, 1, 2]})
def acl_bytes_rt(b1: int, b2: int, d0: int, d1: int, n: int) -> bool:
    raw = _B(2, b1, b2, n, 0) + _B(d0, d1)[:n]
    q = hci.HCI_Packet.from_bytes(raw)
    q2 = hci.HCI_AclDataPacket(q.connection_handle, q.pb_flag, q.bc_flag, q.data_total_length, q.data)
    return bytes(q) == raw and bytes(q2) == raw


# ---- SCO
@harness(pre=['0 <= handle <= 0xFFF and 0 <= d0 <= 255'], family='data', kernels=K_DATA, grid={'st': [0, 1, 2, 3], 'n': [0, 1]},
         bounds='SCO: handle 12 bit, every packet status, 0..1 data bytes')
def sco_fields_rt(handle: int, d0: int, st: int, n: int) -> bool:
    data = _B(d0)[:n]
    p = hci.HCI_SynchronousDataPacket(connection_handle=handle, packet_status=hci.HCI_SynchronousDataPacket.Status(st), data_total_length=n, data=data)
    q = hci.HCI_Packet.from_bytes(bytes(p))
    return (type(q) is hci.HCI_SynchronousDataPacket and q.connection_handle == handle and int(q.packet_status) == st
            and q.data_total_length == n and q.data == data and bytes(q) == bytes(p))


@harness(pre=['0 <= b1 <= 255 and 0 <= b2l <= 15 and 0 <= d0 <= 255'], family='data', kernels=K_DATA, grid={'st': [0, 1, 2, 3]},
         bounds='SCO bytes: handle bits symbolic, status per condition, RFU bits 14-15 zero')
def sco_bytes_rt(b1: int, b2l: int, d0: int, st: int) -> bool:
    raw = _B(3, b1, b2l + st * 16, 1, d0)
    q = hci.HCI_Packet.from_bytes(raw)
    q2 = hci.HCI_SynchronousDataPacket(q.connection_handle, q.packet_status, q.data_total_length, q.data)
    return bytes(q) == raw and bytes(q2) == raw


# ---- ISO
@harness(pre=['0 <= b1 <= 255 and 0 <= b2l <= 15 and 0 <= s0 <= 255 and 0 <= s1 <= 255 and 0 <= l0 <= 255 and 0 <= l1l <= 15 and 0 <= psf <= 3 and 0 <= d0 <= 255',
              '0 <= t0 <= 255 and 0 <= t3 <= 255'],
         family='data', twin=True, kernels=K_DATA, grid={'pb': [0, 1, 2, 3], 'ts': [0, 1]},
         bounds='ISO bytes: every PB flag x TS flag; handle, timestamp, sequence number, SDU length (12 bit), Packet_Status_Flag (2 bits, 14-15) symbolic; RFU bits zero; 1 data byte')
def iso_bytes_rt(b1: int, b2l: int, t0: int, t3: int, s0: int, s1: int, l0: int, l1l: int, psf: int, d0: int, pb: int, ts: int) -> bool:
    if ts and (pb & 1):
        return True      # a timestamp only accompanies the first fragment / complete SDU
    body = b''
    if ts:
        body += _B(t0, 1, 2, t3)
    if not (pb & 1):
        body += _B(s0, s1, l0, l1l + (psf << 6))
    body += _B(d0)
    raw = _B(5, b1, b2l + (pb << 4) + (ts << 6), len(body), 0) + body
    q = hci.HCI_Packet.from_bytes(raw)
    if type(q) is not hci.HCI_IsoDataPacket or bytes(q) != raw:
        return False
    q2 = hci.HCI_IsoDataPacket(connection_handle=q.connection_handle, data_total_length=q.data_total_length, iso_sdu_fragment=q.iso_sdu_fragment,
                               pb_flag=q.pb_flag, ts_flag=q.ts_flag, time_stamp=q.time_stamp, packet_sequence_number=q.packet_sequence_number,
                               iso_sdu_length=q.iso_sdu_length, packet_status_flag=q.packet_status_flag)
    return bytes(q2) == raw and q.iso_sdu_fragment == _B(d0)


@harness(pre=['0 <= handle <= 0xFFF and 0 <= seq <= 0xFFFF and 0 <= sdulen <= 0xFFF and 0 <= psf <= 3 and 0 <= stamp <= 0xFFFFFFFF and 0 <= d0 <= 255'],
         family='data', kernels=K_DATA, grid={'pb': [0, 1, 2, 3], 'ts': [0, 1]},
         bounds='ISO fields: every PB x TS; all fields full width')
def iso_fields_rt(handle: int, seq: int, sdulen: int, psf: int, stamp: int, d0: int, pb: int, ts: int) -> bool:
    if ts and (pb & 1):
        return True
    first = not (pb & 1)
    p = hci.HCI_IsoDataPacket(connection_handle=handle, data_total_length=1 + (4 if ts else 0) + (4 if first else 0), iso_sdu_fragment=_B(d0), pb_flag=pb,
                              time_stamp=stamp if ts else None, packet_sequence_number=seq if first else None,
                              iso_sdu_length=sdulen if first else None, packet_status_flag=psf if first else None)
    q = hci.HCI_Packet.from_bytes(bytes(p))
    return (type(q) is hci.HCI_IsoDataPacket and q.connection_handle == handle and q.pb_flag == pb and bool(q.ts_flag) == bool(ts)
            and q.time_stamp == (stamp if ts else None) and q.packet_sequence_number == (seq if first else None)
            and q.iso_sdu_length == (sdulen if first else None) and q.packet_status_flag == (psf if first else None)
            and q.iso_sdu_fragment == _B(d0) and bytes(q) == bytes(p))


# ---- unknown opcodes / codes are carried generically, parameters byte for byte
def _unregistered(reg, lo, hi):
    return [v for v in range(lo, hi) if v not in reg]


FREE_OGFS = [g for g in range(0x40) if not any((op >> 10) == g for op in hci.HCI_Command.command_classes)]


@harness(pre=['0 <= ocf <= 0x3FF and 0 <= p0 <= 255 and 0 <= p1 <= 255 and 0 <= p2 <= 255'], family='generic', twin=True,
         kernels=('bumble.hci.HCI_Command.from_bytes', 'bumble.hci.HCI_Command.__bytes__'), timeout=(60, 240),
         grids=[(('quick',), {'n': [0, 1, 3], 'ogf': [FREE_OGFS[-1]], 'ocf': [0, 1, 0x155, 0x3FF]}),
                (('thorough',), {'n': [0, 1, 3], 'ogf': [FREE_OGFS[0], FREE_OGFS[len(FREE_OGFS) // 2], FREE_OGFS[-1]]})],
         bounds='opcodes with an OGF that has no registered command (first, middle, last such OGF; read from the registry), any 10-bit OCF, 0..3 parameter bytes')
def unknown_command(ocf: int, p0: int, p1: int, p2: int, n: int, ogf: int) -> bool:
    op = ogf * 1024 + ocf
    params = _B(p0, p1, p2)[:n]
    raw = _B(1, op % 256, op // 256, n) + params
    q = hci.HCI_Packet.from_bytes(raw)
    return type(q) is hci.HCI_Command and q.op_code == op and q.parameters == params and bytes(q) == raw


@harness(pre=['0 <= p0 <= 255 and 0 <= p1 <= 255 and 0 <= i < len(CODES)'], family='generic',
         kernels=('bumble.hci.HCI_Event.from_bytes', 'bumble.hci.HCI_Event.__bytes__'), grid={'n': [0, 2]},
         bounds='every event code 0..255 not in the registry (selected by a symbolic index), 0..2 parameter bytes')
def unknown_event(i: int, p0: int, p1: int, n: int) -> bool:
    code = CODES[int(i)]
    params = _B(p0, p1)[:n]
    raw = _B(4, code, n) + params
    q = hci.HCI_Packet.from_bytes(raw)
    return type(q) is hci.HCI_Event and q.event_code == code and q.parameters == params and bytes(q) == raw


CODES = [c for c in range(256) if c not in hci.HCI_Event.event_classes and c not in (hci.HCI_LE_META_EVENT, hci.HCI_VENDOR_EVENT)][::16]
SUBCODES = [c for c in range(256) if c not in hci.HCI_LE_Meta_Event.subevent_classes][::24]


@harness(pre=['0 <= p0 <= 255 and 0 <= p1 <= 255 and 0 <= i < len(SUBCODES)'], family='generic',
         kernels=('bumble.hci.HCI_Event.from_bytes', 'bumble.hci.HCI_LE_Meta_Event.__init__'), grid={'n': [0, 2]},
         bounds='LE sub-event codes not in the registry (every 24th, by symbolic index), 0..2 parameter bytes')
def unknown_le_subevent(i: int, p0: int, p1: int, n: int) -> bool:
    code = SUBCODES[int(i)]
    params = _B(code, p0, p1)[:n + 1]
    raw = _B(4, hci.HCI_LE_META_EVENT, n + 1) + params
    q = hci.HCI_Packet.from_bytes(raw)
    return isinstance(q, hci.HCI_LE_Meta_Event) and q.subevent_code == code and bytes(q) == raw


@harness(pre=['0 <= p0 <= 255 and 0 <= p1 <= 255 and 0 <= p2 <= 255'], family='generic', kernels=('bumble.hci.HCI_Event.from_bytes',), grid={'n': [0, 1, 3]},
         bounds='vendor event (0xFF) with no vendor factory registered, 0..3 bytes')
def vendor_event(p0: int, p1: int, p2: int, n: int) -> bool:
    params = _B(p0, p1, p2)[:n]
    raw = _B(4, 0xFF, n) + params
    q = hci.HCI_Packet.from_bytes(raw)
    q2 = hci.HCI_Vendor_Event(data=q.data)
    return type(q) is hci.HCI_Vendor_Event and q.data == params and bytes(q) == raw and bytes(q2) == raw


@harness(pre=['5 < t <= 255 and 0 <= p0 <= 255'], family='generic', kernels=('bumble.hci.HCI_Packet.from_bytes', 'bumble.hci.HCI_CustomPacket.__bytes__'),
         bounds='packet-type bytes other than 1..5 are carried as custom packets')
def custom_packet(t: int, p0: int) -> bool:
    raw = _B(t, p0)
    q = hci.HCI_Packet.from_bytes(raw)
    return type(q) is hci.HCI_CustomPacket and bytes(q) == raw and q.hci_packet_type == t


# ---- the two commands with hand-written parsers (phys bit mask steers the layout)
@harness(pre=['0 <= own <= 3 and 0 <= pol <= 255 and 0 <= a0 <= 255 and 0 <= a1 <= 255 and 0 <= a2 <= 255 and 0 <= a3 <= 255 and 0 <= a4 <= 255',
              '0 <= b0 <= 255 and 0 <= b1 <= 255 and 0 <= b2 <= 255 and 0 <= b3 <= 255 and 0 <= b4 <= 255'],
         family='custom', kernels=('bumble.hci.HCI_LE_Set_Extended_Scan_Parameters_Command.from_parameters', 'bumble.hci.HCI_LE_Set_Extended_Scan_Parameters_Command.__init__'),
         grid={'phys': [0, 1, 4, 5]}, bounds='LE Set Extended Scan Parameters: scanning_phys in {0,1,4,5} (0..2 PHY entries), all entry bytes symbolic')
def ext_scan_params(own: int, pol: int, a0: int, a1: int, a2: int, a3: int, a4: int, b0: int, b1: int, b2: int, b3: int, b4: int, phys: int) -> bool:
    n = bin(phys).count('1')
    entries = [_B(a0, a1, a2, a3, a4), _B(b0, b1, b2, b3, b4)][:n]
    # layout: types[n] intervals[n](2) windows[n](2)
    params = _B(own, pol, phys) + b''.join(e[0:1] for e in entries) + b''.join(e[1:3] for e in entries) + b''.join(e[3:5] for e in entries)
    cls = hci.HCI_LE_Set_Extended_Scan_Parameters_Command
    raw = _B(1, cls.op_code & 0xFF, cls.op_code >> 8, len(params)) + params
    q = hci.HCI_Packet.from_bytes(raw)
    if type(q) is not cls or bytes(q) != raw:
        return False
    q2 = cls(own_address_type=q.own_address_type, scanning_filter_policy=q.scanning_filter_policy, scanning_phys=q.scanning_phys,
             scan_types=q.scan_types, scan_intervals=q.scan_intervals, scan_windows=q.scan_windows)
    return bytes(q2) == raw


@harness(pre=['0 <= pol <= 255 and 0 <= own <= 3 and 0 <= pt <= 1 and 0 <= v0 <= 0xFFFF and 0 <= v1 <= 0xFFFF and 0 <= v2 <= 0xFFFF and 0 <= v3 <= 0xFFFF and 0 <= a0 <= 255'],
         family='custom', kernels=('bumble.hci.HCI_LE_Extended_Create_Connection_Command.from_parameters', 'bumble.hci.HCI_LE_Extended_Create_Connection_Command.__init__'),
         grid={'phys': [1, 2, 3, 4, 5, 6, 7]}, twin=True,
         bounds='LE Extended Create Connection: every initiating_phys mask 1..7 (contiguous or not; 1..3 parameter blocks), filter policy, address bytes and four 16-bit values per block symbolic: bytes -> command -> bytes and fields -> bytes -> fields are identities')
def ext_create_connection(pol: int, own: int, pt: int, v0: int, v1: int, v2: int, v3: int, a0: int, phys: int) -> bool:
    n = bin(phys).count('1')
    blocks = b''.join(struct.pack('<HHHHHHHH', v0, v1, v2, v3, j, 10 + j, v1, v0) for j in range(n))
    params = _B(pol, own, pt, a0, 2, 3, 4, 5, 6, phys) + blocks
    cls = hci.HCI_LE_Extended_Create_Connection_Command
    raw = _B(1, cls.op_code & 0xFF, cls.op_code >> 8, len(params)) + params
    q = hci.HCI_Packet.from_bytes(raw)
    if type(q) is not cls or bytes(q) != raw:
        return False
    if q.initiating_phys != phys or q.scan_intervals != [v0] * n or q.connection_interval_maxs != [v3] * n or q.max_latencies != list(range(n)) or q.max_ce_lengths != [v0] * n:
        return False
    q2 = cls(initiator_filter_policy=q.initiator_filter_policy, own_address_type=q.own_address_type, peer_address_type=q.peer_address_type, peer_address=q.peer_address,
             initiating_phys=q.initiating_phys, scan_intervals=q.scan_intervals, scan_windows=q.scan_windows, connection_interval_mins=q.connection_interval_mins,
             connection_interval_maxs=q.connection_interval_maxs, max_latencies=q.max_latencies, supervision_timeouts=q.supervision_timeouts,
             min_ce_lengths=q.min_ce_lengths, max_ce_lengths=q.max_ce_lengths)
    return bytes(q2) == raw


def conditions():
    out = registered(__name__)
    out += gencodec.conditions(['hcicmd', 'hcievt', 'hcile', 'hcicc'])
    return out


_flags.int_format_placeholder = True     # log f-strings with symbolic ints are not the subject here (see vf/flags.py)
