"""C05 — L2CAP PDUs of any size cross the ACL link intact for any buffer geometry.

Real Host.send_l2cap_pdu / send_acl_sdu / send_iso_sdu (fragmentation), HCI_AclDataPacket codec,
HCI_AclDataPacketAssembler (host side and controller side), host.Connection queue selection and
on_acl_pdu; E2 loop-body verification conditions cover the full 16-bit ranges.
"""
from vf.e1 import harness, registered, untraced, concrete as C
from vf import flags as _flags
from vf import detloop

from bumble import hci, l2cap
from bumble import host as bhost
from bumble.core import PhysicalTransport
from bumble.host import DataPacketQueue, Host

ASSUMPTIONS = [
    'E1 geometry is scaled: ACL data length 2..12, PDU payload 0..40, ISO length 5..12 (the fragmentation loops have no clamp; E2 covers 1..65535)',
    'payload bytes are distinct concrete values (loss, duplication, re-ordering and corruption are all visible); sizes and fault shapes are symbolic integers split by solver forks',
    '"ordinary exception" includes AssertionError, struct.error, IndexError: what is asserted is the assembler state afterwards (DESIGN 3.0)',
    'ISO SDUs longer than 4095 bytes are outside the 12-bit length field',
]
K = ('bumble.host.Host.send_acl_sdu', 'bumble.host.Host.send_l2cap_pdu', 'bumble.hci.HCI_AclDataPacketAssembler.feed_packet', 'bumble.hci.HCI_AclDataPacket.from_bytes',
     'bumble.hci.HCI_AclDataPacket.__bytes__', 'bumble.host.Connection.__init__', 'bumble.host.Connection.on_acl_pdu', 'bumble.l2cap.L2CAP_PDU.from_bytes')
K_ISO = ('bumble.host.Host.send_iso_sdu', 'bumble.hci.HCI_IsoDataPacket.__bytes__', 'bumble.hci.HCI_IsoDataPacket.from_bytes')
ADDR = hci.Address('F0:F1:F2:F3:F4:F5')


def _host(m_acl, m_le):
    h = Host()
    out = []
    h.acl_packet_queue = DataPacketQueue(m_acl, 1000, out.append)
    h.le_acl_packet_queue = DataPacketQueue(m_le, 1000, out.append)
    return h, out


def _payload(n, base=1):
    return bytes((base + i) % 251 for i in range(n))


def _canary_fragment_too_long():
    def send_acl_sdu(self, connection_handle, sdu):
        connection = self.connections.get(connection_handle)
        q = connection.acl_packet_queue
        m = q.max_packet_size + 1          # off by one
        for offset in range(0, len(sdu), m):
            pdu = sdu[offset:offset + m]
            q.enqueue(hci.HCI_AclDataPacket(connection_handle, 1 if offset > 0 else 0, 0, len(pdu), pdu), connection_handle)
    Host.send_acl_sdu = send_acl_sdu


@harness(pre=['0 <= n <= 40 and 0 <= n2 <= 9'], family='acl', twin=True, kernels=K, timeout=(60, 240), canaries=[('fragments-one-byte-too-long', _canary_fragment_too_long)],
         grids=[(('quick',), {'transport': ['le'], 'm': [2, 3, 4, 5, 7, 8, 12]}), (('quick',), {'transport': ['classic'], 'm': [3, 8]}), (('thorough',), {'transport': ['le', 'classic'], 'm': [2, 3, 4, 5, 6, 7, 8, 9, 10, 11, 12, 27]})],
         bounds='ACL data length m 2..12 (the first fragment must hold the 2-byte L2CAP length; real controllers offer >= 27), PDU payloads of 0..40 and 0..9 bytes sent back to back (symbolic sizes): every fragment 1..m bytes with the right PB flag and length field and survives the packet codec; the assembler delivers both PDUs once, in order, byte-identical, with the right CID')
def acl_fragment_and_reassemble(n: int, n2: int, transport: str, m: int) -> bool:
    n, n2 = C(n, 0, 40), C(n2, 0, 9)
    with untraced():
        h, out = _host(m if transport == 'classic' else 200, m if transport == 'le' else 200)
        h.connections[1] = bhost.Connection(h, 1, ADDR, PhysicalTransport.LE if transport == 'le' else PhysicalTransport.BR_EDR)
        p1, p2 = _payload(n), _payload(n2, 100)
        h.send_l2cap_pdu(1, 0x0040, p1)
        k1 = len(out)
        h.send_l2cap_pdu(1, 0x0041, p2)
        got = []
        asm = hci.HCI_AclDataPacketAssembler(got.append)
        for i, pkt in enumerate(out):
            first = i in (0, k1)
            if not (1 <= len(pkt.data) <= m) or pkt.data_total_length != len(pkt.data) or pkt.connection_handle != 1:
                return False
            if pkt.pb_flag != (0 if first else 1):
                return False
            wire = hci.HCI_Packet.from_bytes(bytes(pkt))
            asm.feed_packet(wire)
        if len(got) != 2:
            return False
        a, b = l2cap.L2CAP_PDU.from_bytes(got[0]), l2cap.L2CAP_PDU.from_bytes(got[1])
        return (a.cid, a.payload, b.cid, b.payload) == (0x0040, p1, 0x0041, p2)


@harness(pre=['1 <= bufs <= 3 and 4 <= n <= 24 and 0 <= n_other <= 8 and 0 <= who_first <= 1'], family='acl', twin=True, kernels=K + ('bumble.host.DataPacketQueue.flush', 'bumble.host.Host.on_hci_disconnection_complete_event'), timeout=(90, 300),
         grid={'m': [4, 6]},
         bounds='two LE connections share the controller\'s 1..3 ACL buffers of 4 or 6 bytes; both have a PDU in fragments, most of them still waiting, when one connection is disconnected (symbolic sizes, buffer count and submission order): the surviving connection\'s remaining fragments still go out in order, start fragment first, and reassemble to exactly its PDU; nothing of the closed connection is sent afterwards')
def fragments_survive_the_other_links_disconnection(bufs: int, n: int, n_other: int, who_first: int, m: int) -> bool:
    bufs, n, n_other, who_first = C(bufs, 1, 3), C(n, 4, 24), C(n_other, 0, 8), C(who_first, 0, 1)
    with untraced():
        h = Host()
        out = []
        h.le_acl_packet_queue = bhost.DataPacketQueue(m, bufs, out.append)
        h.acl_packet_queue = h.le_acl_packet_queue
        for handle in (1, 2):
            h.connections[handle] = bhost.Connection(h, handle, ADDR, PhysicalTransport.LE)
        p_keep, p_gone = _payload(n), _payload(n_other, 100)
        for handle in ((2, 1) if who_first else (1, 2)):
            h.send_l2cap_pdu(handle, 0x0040, p_keep if handle == 1 else p_gone)
        sent_before = len(out)
        h.on_hci_disconnection_complete_event(hci.HCI_Disconnection_Complete_Event(status=0, connection_handle=2, reason=0x13))
        for _ in range(40):
            k = len(out)
            h.on_hci_number_of_completed_packets_event(hci.HCI_Number_Of_Completed_Packets_Event(connection_handles=[1], num_completed_packets=[1]))
            if len(out) == k and not h.le_acl_packet_queue._packets:
                break
        if any(p.connection_handle == 2 for p in out[sent_before:]):
            return False
        got = []
        asm = hci.HCI_AclDataPacketAssembler(got.append)
        for p in out:
            if p.connection_handle == 1:
                asm.feed_packet(p)
        if len(got) != 1:
            return False
        pdu = l2cap.L2CAP_PDU.from_bytes(got[0])
        return pdu.cid == 0x0040 and pdu.payload == p_keep


@harness(pre=['1 <= m_acl <= 8 and 1 <= m_le <= 8 and 0 <= n <= 20'], family='acl', kernels=K, timeout=(60, 240),
         bounds='a controller with separate BR/EDR and LE buffers of symbolic sizes 1..8: the fragments of a connection fit the buffer length of ITS transport')
def queue_of_the_right_transport(m_acl: int, m_le: int, n: int) -> bool:
    m_acl, m_le, n = C(m_acl, 1, 8), C(m_le, 1, 8), C(n, 0, 20)
    with untraced():
        for transport, limit in ((PhysicalTransport.LE, m_le), (PhysicalTransport.BR_EDR, m_acl)):
            h, out = _host(m_acl, m_le)
            h.connections[1] = bhost.Connection(h, 1, ADDR, transport)
            h.send_l2cap_pdu(1, 0x40, _payload(n))
            if any(len(p.data) > limit for p in out) or sum(len(p.data) for p in out) != n + 4:
                return False
        return True


@harness(pre=['0 <= n0 <= 5 and 0 <= len0 <= 6 and 0 <= n1 <= 5 and 0 <= count <= 2'], family='faults', twin=True, kernels=K, timeout=(90, 300),
         grid={'pb0': [0, 1, 2, 3], 'pb1': [0, 1, 2, 3]},
         bounds='between two well-formed PDUs, 0..2 malformed fragments with symbolic PB flags 0..3, sizes 0..5 and announced length 0..6 (continuation without start, data beyond the announced length, abandoned start, ...): the PDU after the garbage is delivered intact exactly once, the first PDU is not delivered twice, and nothing is delivered that no start fragment began (no phantom PDU from stray continuations)')
def malformed_fragments_cost_one_pdu(n0: int, len0: int, n1: int, count: int, pb0: int, pb1: int) -> bool:
    n0, len0, n1, count = C(n0, 0, 5), C(len0, 0, 6), C(n1, 0, 5), C(count, 0, 2)
    with untraced():
        got = []
        asm = hci.HCI_AclDataPacketAssembler(got.append)

        def pkt(pb, data):
            return hci.HCI_AclDataPacket(connection_handle=1, pb_flag=pb, bc_flag=0, data_total_length=len(data), data=data)
        good1 = bytes([2, 0, 4, 0, 0xA1, 0xA2])
        asm.feed_packet(pkt(0, good1[:3]))
        asm.feed_packet(pkt(1, good1[3:]))
        g0 = bytes([len0, 0, 4, 0, 0x55, 0x56])[:n0]
        g1 = bytes([0x61, 0x62, 0x63, 0x64, 0x65])[:n1]
        for pb, g in ((pb0, g0), (pb1, g1))[:count]:
            try:
                asm.feed_packet(pkt(pb, g))
            except Exception:
                pass
        good2 = bytes([3, 0, 4, 0, 0xB1, 0xB2, 0xB3])
        asm.feed_packet(pkt(0, good2[:4]))
        asm.feed_packet(pkt(1, good2[4:]))
        if not (got.count(good1) == 1 and got.count(good2) == 1 and got[0] == good1 and got[-1] == good2):
            return False
        # anything else that is delivered must come from a garbage fragment that IS a start fragment (it may form a PDU of its own);
        # continuations and undefined PB flags with nothing pending never produce a PDU (no phantom PDUs)
        extra = [g for g in got if g not in (good1, good2)]
        starts = sum(1 for pb in (pb0, pb1)[:count] if pb in (0, 2))
        return len(extra) <= starts


@harness(pre=['0 <= n <= 12 and 0 <= cut <= 12'], family='faults', kernels=K, timeout=(60, 200),
         bounds='host side: a start fragment (symbolic length) whose announced length is never reached, then a complete PDU on the same connection: host.Connection.on_acl_pdu sees the complete PDU')
def abandoned_start_then_pdu_on_host_connection(n: int, cut: int) -> bool:
    n, cut = C(n, 0, 12), C(cut, 0, 12)
    with untraced():
        h, out = _host(27, 27)
        conn = bhost.Connection(h, 1, ADDR, PhysicalTransport.LE)
        seen = []
        h.on_l2cap_pdu = lambda connection, cid, payload: seen.append((cid, bytes(payload)))
        full = bytes(l2cap.L2CAP_PDU(0x40, _payload(n)))
        part = full[:min(cut, len(full) - 1)] if len(full) > 1 else b''
        if len(part) >= 2:
            try:
                conn.on_hci_acl_data_packet(hci.HCI_AclDataPacket(1, 2, 0, len(part), part))
            except Exception:
                pass
        ok = bytes(l2cap.L2CAP_PDU(0x41, b'\x09\x08'))
        conn.on_hci_acl_data_packet(hci.HCI_AclDataPacket(1, 2, 0, len(ok), ok))
        return seen[-1:] == [(0x41, b'\x09\x08')]


# ------------------------------------------------------------------------------------------
class _IsoLink:
    def __init__(self, m, seq, out):
        self.handle = 0x60
        self.packet_queue = DataPacketQueue(m, 1000, out.append)
        self.packet_sequence_number = seq


def _canary_iso_last_flag():
    def send_iso_sdu(self, connection_handle, sdu):
        iso_link = self.cis_links.get(connection_handle)
        m = iso_link.packet_queue.max_packet_size
        bytes_remaining, offset = len(sdu), 0
        is_last_fragment = bytes_remaining <= m           # ignores the 4-byte SDU header of the first fragment
        first = True
        while bytes_remaining or first:
            first = False
            is_first = offset == 0
            hl = 4 if is_first else 0
            fl = min(bytes_remaining, m - hl)
            if not is_first:
                is_last_fragment = bytes_remaining == fl
            frag = sdu[offset:offset + fl]
            iso_link.packet_queue.enqueue(
                hci.HCI_IsoDataPacket(connection_handle=connection_handle, data_total_length=hl + fl, packet_sequence_number=iso_link.packet_sequence_number,
                                      pb_flag=0b10 if is_last_fragment else 0b00, packet_status_flag=0, iso_sdu_length=len(sdu), iso_sdu_fragment=frag)
                if is_first else
                hci.HCI_IsoDataPacket(connection_handle=connection_handle, data_total_length=fl, pb_flag=0b11 if bytes_remaining == fl else 0b01, iso_sdu_fragment=frag),
                connection_handle)
            offset += fl
            bytes_remaining -= fl
        iso_link.packet_sequence_number = (iso_link.packet_sequence_number + 1) & 0xFFFF
    Host.send_iso_sdu = send_iso_sdu


@harness(pre=['5 <= m <= 12 and 0 <= n <= 30 and 0 <= seq <= 0xFFFF'], family='iso', twin=True, kernels=K_ISO, timeout=(90, 300), canaries=[('iso-complete-flag-ignores-sdu-header', _canary_iso_last_flag)],
         bounds='ISO SDU of 0..30 bytes, ISO data length 5..12 (sizes split by forks), sequence number symbolic over 16 bits: every fragment fits, the first carries SDU length and sequence number, PB flags form complete | first (continuation)* last, the data concatenates to the SDU, the link sequence number advances by one modulo 2^16; each packet survives the codec')
def iso_fragments(m: int, n: int, seq: int) -> bool:
    m, n = C(m, 5, 12), C(n, 0, 30)
    h = Host()
    out = []
    link = _IsoLink(m, seq, out)
    h.cis_links[0x60] = link
    sdu = _payload(n)
    h.send_iso_sdu(0x60, sdu)
    if link.packet_sequence_number != (seq + 1) % 65536:
        return False
    if not out:
        return False
    data = b''
    for i, p in enumerate(out):
        raw = bytes(p)
        if len(raw) - 5 > m or p.data_total_length != len(raw) - 5:
            return False
        q = hci.HCI_Packet.from_bytes(raw)
        last = i == len(out) - 1
        if i == 0:
            if q.pb_flag != (2 if last else 0) or q.iso_sdu_length != n or q.packet_sequence_number != seq:
                return False
        elif q.pb_flag != (3 if last else 1):
            return False
        if len(q.iso_sdu_fragment) == 0 and n > 0:
            return False
        data += q.iso_sdu_fragment
    return data == sdu


_flags.int_format_placeholder = True


def conditions():
    # a PDU only finishes crossing the link when the completions for its fragments are credited: the host-side handling of
    # Number Of Completed Packets events that also name other (SCO, stale) handles lives with the queue harnesses (C04) and counts here too
    from vf.props import c04
    return registered(__name__) + [c for c in registered(c04.__name__) if c.name.split('@')[0].split('.')[0] == 'host_completion_event']


def e2_obligations(tier):
    """wide-range verification conditions over the AST of the real source (vf/e2.py, vf/e2k.py)"""
    from vf import e2k
    return [e2k.acl_fragmentation(), e2k.acl_assembler_step(), e2k.iso_fragmentation()]
