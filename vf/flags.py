"""Switches a harness module may set at import time (read by vf/shim.py under the tracer; no effect on replay).

int_format_placeholder: formatting a *symbolic* int/bytes into a string (f-strings in eagerly built log
    messages such as f'{self.credits} credits left') yields a fixed placeholder instead of a symbolic string.
    Symbolic int->str conversion forks per digit count/value and dominated whole harnesses.  Only for
    properties whose code under test never uses such strings semantically (not HFP/AT, not the key store)."""
int_format_placeholder = False
