"""Replay one counterexample on plain CPython against /repo (no tracer, no shim).
usage: python -m vf.replay <file.json>; prints REPRODUCED ... or NOT-REPRODUCED ...; exit 1 iff reproduced."""
import json
import sys
import traceback


def decode(v):
    if isinstance(v, dict) and '__bytes__' in v:
        return bytes.fromhex(v['__bytes__'])
    if isinstance(v, list):
        return [decode(x) for x in v]
    if isinstance(v, dict) and '__tuple__' in v:
        return tuple(decode(x) for x in v['__tuple__'])
    return v


def encode(v):
    if isinstance(v, (bytes, bytearray)):
        return {'__bytes__': bytes(v).hex()}
    if isinstance(v, tuple):
        return {'__tuple__': [encode(x) for x in v]}
    if isinstance(v, list):
        return [encode(x) for x in v]
    return v


def run(spec) -> tuple:
    import logging
    logging.disable(logging.CRITICAL)
    from vf import props
    if 'e2' in spec:
        # an E2 counterexample: run the kernel's replay on the real function
        m = props.module(spec['property'])
        ob = next(o for o in m.e2_obligations('quick') if o['name'] == spec['e2'])
        return ob['replay'](spec.get('model') or {})
    c = props.find(spec['property'], spec['condition'])
    if spec.get('canary'):
        dict(c.canaries)[spec['canary']]()
    args = {k: decode(v) for k, v in spec['args'].items()}
    for p in list(c.pre) + list(spec.get('extra_pre', [])):
        try:
            ok = eval(p, dict(c.fn.__globals__), {**c.fixed, **args})
        except Exception as e:
            return False, f'precondition raised {e!r}'
        if not ok:
            return False, f'precondition false: {p}'
    try:
        r = c.fn(**args, **c.fixed)
    except Exception as e:
        tb = traceback.extract_tb(e.__traceback__)[-1]
        return True, f'raised {type(e).__name__}: {str(e)[:200]} at {tb.filename}:{tb.lineno}'
    if not r:
        return True, f'returned {r!r}'
    return False, f'returned {r!r}'


def main():
    spec = json.load(open(sys.argv[1]))
    ok, detail = run(spec)
    print(('REPRODUCED ' if ok else 'NOT-REPRODUCED ') + detail)
    sys.exit(1 if ok else 0)


if __name__ == '__main__':
    main()
