"""Prelude fixing CrossHair modelling gaps that matter for bumble (applied in harness processes only)."""
import sys
import crosshair.core_and_libs  # ensure registrations done
import crosshair.core as chcore
import crosshair.libimpl.structlib as sl
import crosshair.libimpl.builtinslib as bl
from crosshair.tracers import NoTracing, ResumedTracing

# 1. struct: native byte order is little-endian on this machine, CrossHair models '@' as big.
def _fixed(prefix):
    if prefix in ('@', '='):
        return sys.byteorder
    return 'little' if prefix == '<' else 'big'
sl._byteorder_for_int = _fixed

# 2. bytes(obj) where obj defines __bytes__ in Python: run it traced.
_orig_bytes_patch = chcore._PATCH_REGISTRATIONS[bytes]
def _bytes(*a):
    if len(a) == 1:
        with NoTracing():
            src = a[0]
            meth = getattr(type(src), '__bytes__', None)
            use = meth is not None and not isinstance(src, (bytes, bytearray, bl.SymbolicBytes, bl.SymbolicByteArray)) and hasattr(meth, '__code__')
        if use:
            return meth(src)
    return _orig_bytes_patch(*a)
chcore._PATCH_REGISTRATIONS[bytes] = _bytes

# 3. bitwise | and ^ on symbolic ints: when operands occupy disjoint bit ranges
#    (a multiple of 2^k, b < 2^k) then a|b == a^b == a+b, which stays in linear arithmetic.
import operator as ops
import z3
from typing import Union
from crosshair.statespace import context_statespace
from crosshair.core import realize
_W = 64

def _pow2_factor(v):
    """largest k such that expression v is syntactically a multiple of 2^k (None = unknown/zero)"""
    if isinstance(v, int):
        if v == 0:
            return 64
        return (v & -v).bit_length() - 1
    if z3.is_int_value(v):
        return _pow2_factor(v.as_long())
    if z3.is_mul(v):
        return sum(_pow2_factor(c) for c in v.children())
    if z3.is_add(v):
        return min(_pow2_factor(c) for c in v.children())
    return 0

def _bitop(op, a: Union[bl.SymbolicInt, int], b: Union[bl.SymbolicInt, int]):
    with NoTracing():
        if not isinstance(a, bl.SymbolicInt) and not isinstance(b, bl.SymbolicInt):
            return op(a, b)
        av = a.var if isinstance(a, bl.SymbolicInt) else z3.IntVal(int(a))
        bv = b.var if isinstance(b, bl.SymbolicInt) else z3.IntVal(int(b))
        space = context_statespace()
        ka, kb = _pow2_factor(av), _pow2_factor(bv)
        if kb > ka:
            av, bv, ka, kb = bv, av, kb, ka
        # av is a multiple of 2^ka: disjoint if 0 <= bv < 2^ka and av >= 0
        if ka > 0 and space.smt_fork(z3.And(av >= 0, bv >= 0, bv < 2 ** ka), probability_true=0.98):
            return bl.SymbolicInt(av + bv)
    # not a disjoint-field combination: fall back to CrossHair's own behaviour (realisation: the solver
    # enumerates the operand values path by path; exhaustive for small domains, otherwise the condition
    # times out and is reported inconclusive).  An Int2BV/BV2Int encoding was tried and stalls z3.
    return op(realize(a), realize(b))
bl.setup_binop(_bitop, {ops.or_, ops.xor})


# 3b. `x & MASK` with a concrete non-negative mask: sum over the mask's runs of set bits of
#     ((x div 2^k) mod 2^m) * 2^k  -- exact for x >= 0, stays in linear integer arithmetic with constant div/mod.
def _runs(mask):
    out, k = [], 0
    while mask >> k:
        if (mask >> k) & 1:
            m = 0
            while (mask >> (k + m)) & 1:
                m += 1
            out.append((k, m))
            k += m
        else:
            k += 1
    return out


def _andop(op, a: Union[bl.SymbolicInt, int], b: Union[bl.SymbolicInt, int]):
    with NoTracing():
        sa, sb = isinstance(a, bl.SymbolicInt), isinstance(b, bl.SymbolicInt)
        if not sa and not sb:
            return op(a, b)
        if sa != sb:
            sym, con = (a, b) if sa else (b, a)
            if isinstance(con, int) and not isinstance(con, bool) and 0 <= con < 2 ** 64:
                space = context_statespace()
                if space.smt_fork(sym.var >= 0, probability_true=0.98):
                    if con == 0:
                        return 0
                    terms = [((sym.var / (2 ** k)) % (2 ** m)) * (2 ** k) for k, m in _runs(con)]
                    return bl.SymbolicInt(z3.Sum(terms) if len(terms) > 1 else terms[0])
    return op(realize(a), realize(b))
bl.setup_binop(_andop, {ops.and_})
bl._BIN_OPS.clear()

# 4. struct.unpack_from: CrossHair slices buffer[offset:] and calls unpack (exact-size) -> spurious error
import struct as _struct
from operator import index as _index
def _unpack_from_fixed(fmt, /, buffer, offset=0):
    sl._check_format_arg(fmt)
    fmt_arg = realize(fmt)
    with NoTracing():
        size = _struct.calcsize(fmt_arg)
    sl._check_readable_buffer_arg(buffer)
    offset = _index(offset)
    if offset < 0:
        offset += len(buffer)
    if len(buffer) - offset < size:
        raise _struct.error(f"unpack_from requires a buffer of at least {size} bytes")
    return _struct.unpack(fmt_arg, buffer[offset:offset + size])
chcore._PATCH_REGISTRATIONS[_struct.unpack_from] = _unpack_from_fixed

# 5. logging: LogRecord() calls time.time(), which CrossHair makes a symbolic float -> path explosion.
import logging as _logging
_logging.disable(_logging.CRITICAL)

# 6. format(obj) deep-realizes (deep-copies) the whole object graph of obj -> RecursionError on
#    Controller/Link/Device graphs.  For ordinary (non-CrossHair) objects whose class defines
#    __format__/__str__ in Python, format them directly under tracing instead.
_orig_format_patch = chcore._PATCH_REGISTRATIONS[format]
_PRIMS = (int, float, str, bytes, bool, type(None), tuple, list, dict, set, frozenset, bytearray)
from vf import flags as _flags


def _format(obj, format_spec=""):
    with NoTracing():
        if _flags.int_format_placeholder and isinstance(obj, (bl.SymbolicInt, bl.SymbolicBytes, bl.SymbolicByteArray)):
            return '?'
    with NoTracing():
        plain_obj = not isinstance(obj, _PRIMS) and type(obj).__module__.split('.')[0] not in ('crosshair', 'z3')
    if plain_obj:
        spec = format_spec if isinstance(format_spec, str) else realize(format_spec)
        if spec == '' and type(obj).__format__ is object.__format__:
            r = type(obj).__str__(obj)          # traced; may be a symbolic str
            with NoTracing():
                if not isinstance(r, str):
                    r = realize(r)
            return r
        return type(obj).__format__(obj, spec)
    return _orig_format_patch(obj, format_spec)
chcore._PATCH_REGISTRATIONS[format] = _format

# 7. never "short-circuit" calls into the code under test (CrossHair may replace a call by a fresh
#    symbolic return value when it thinks the callee has a contract); bumble has no contracts.
chcore.ShortCircuitingContext.make_interceptor = lambda self, original: original


# 8. Formatting is not the subject of any property: bumble builds log strings eagerly (f-strings with
#    {pdu}) even when logging is disabled, and formatting symbolic field values forks on every digit.
#    PDU pretty-printers therefore get empty bodies under the tracer (DESIGN 2.2; replays use the real ones).
def stub_formatting():
    from bumble import hci as _hci
    _hci.HCI_Object.format_fields = staticmethod(lambda *a, **k: '')
    _hci.HCI_Object.stringify_field = staticmethod(lambda *a, **k: '')
    _hci.HCI_Object.format_field_value = staticmethod(lambda *a, **k: '')
    for cls in (_hci.HCI_Command, _hci.HCI_Event, _hci.HCI_AclDataPacket, _hci.HCI_SynchronousDataPacket, _hci.HCI_IsoDataPacket,
                _hci.HCI_Command_Complete_Event, _hci.HCI_LE_Meta_Event):
        cls.__str__ = lambda self: getattr(self, 'name', type(self).__name__)
    try:
        from bumble import att as _att, smp as _smp, l2cap as _l2cap, sdp as _sdp
        for cls in [_att.ATT_PDU] + list(_att.ATT_PDU.pdu_classes.values()):
            cls.__str__ = lambda self: self.name
        for cls in [_smp.SMP_Command] + list(_smp.SMP_Command.smp_classes.values()):
            cls.__str__ = lambda self: self.name
        for cls in [_l2cap.L2CAP_Control_Frame] + list(_l2cap.L2CAP_Control_Frame.classes.values()):
            cls.__str__ = lambda self: self.name
        _sdp.DataElement.to_string = lambda self, *a, **k: 'element'
    except Exception:
        pass


stub_formatting()
