"""Engine E2: verification conditions generated from the AST of the real source.

A loop body or a straight-line integer kernel is read with inspect/ast from the module in the tree under test
(VERIF_REPO) on every run and executed by a small symbolic interpreter: Python ints are z3 Ints (unbounded,
like Python's), byte strings are lists of views (base buffer, start, length) with linear-arithmetic lengths,
objects are field maps, collaborators are stubs that record what they are given.  Every branch whose
condition is not decided by the path condition forks (both sides checked with z3).  At the end of each path
the negated post-condition is handed to z3: unsat = the post-condition holds for ALL values satisfying the
stated pre-state invariant (one inductive step: loops are covered for any number of iterations if the
invariant is preserved); sat = a concrete pre-state, which the kernel's `replay` runs on the real function
before a violation is reported; unknown = inconclusive.

Translation validation: every kernel also pushes concrete pre-states through both the real function and the
interpreter (concrete values decide every branch) and compares the post-states; a mismatch marks the kernel
`invalid-translation` (inconclusive), never `proved`.

Bit-vector kernels (crypto bit twiddling) run the real function *source* with operator-overloading values
over z3 bit-vectors (BVBytes / BVInt) instead.
"""
import ast
import inspect
import textwrap
import time

import z3


class Unsupported(Exception):
    pass


class Infeasible(Exception):
    pass


class _Return(Exception):
    def __init__(self, value):
        self.value = value


class _Continue(Exception):
    pass


class _Raise(Exception):
    def __init__(self, what):
        self.what = what


class SBytes:
    """concatenation of views into named base buffers; every view has length >= 0 on the current path"""

    def __init__(self, segs):
        self.segs = segs            # [(base, start, length)]

    def length(self):
        return z3.simplify(sum([s[2] for s in self.segs], z3.IntVal(0)))

    @staticmethod
    def base(name, n):
        return SBytes([(name, z3.IntVal(0), n)])

    def __repr__(self):
        return 'SBytes(%s)' % [(b, str(z3.simplify(s)), str(z3.simplify(l))) for b, s, l in self.segs]


class Obj:
    """a record with assignable fields (stands for `self`, a connection state, a module, ...)"""

    def __init__(self, **kw):
        self.__dict__['f'] = dict(kw)

    def __getattr__(self, k):
        try:
            return self.f[k]
        except KeyError:
            raise Unsupported(f'field {k}')

    def __setattr__(self, k, v):
        self.f[k] = v


def merge(segs):
    out = []
    for b, s, l in segs:
        if z3.is_int_value(z3.simplify(l)) and z3.simplify(l).as_long() == 0:
            continue
        if out and out[-1][0] == b and z3.is_true(z3.simplify(out[-1][1] + out[-1][2] == s)):
            pb, ps, pl = out.pop()
            out.append((b, ps, z3.simplify(pl + l)))
        else:
            out.append((b, s, l))
    return out


class Interp:
    def __init__(self, solver, stubs=None):
        self.solver = solver
        self.stubs = stubs or {}
        self.npaths = 0
        self.nqueries = 0
        self.lit = 0

    # ---- expressions
    def ev(self, n, env):
        m = getattr(self, 'ev_' + type(n).__name__, None)
        if m is None:
            raise Unsupported(f'{type(n).__name__} at line {getattr(n, "lineno", "?")}')
        return m(n, env)

    def ev_Constant(self, n, env):
        return n.value

    def ev_Name(self, n, env):
        if n.id in env:
            return env[n.id]
        if n.id in self.stubs:
            return self.stubs[n.id]
        raise Unsupported(f'name {n.id}')

    def ev_Attribute(self, n, env):
        o = self.ev(n.value, env)
        if isinstance(o, Obj):
            return getattr(o, n.attr)
        return getattr(o, n.attr)

    def ev_NamedExpr(self, n, env):
        v = self.ev(n.value, env)
        env[n.target.id] = v
        return v

    def ev_Tuple(self, n, env):
        return tuple(self.ev(e, env) for e in n.elts)

    def ev_List(self, n, env):
        return [self.ev(e, env) for e in n.elts]

    def ev_JoinedStr(self, n, env):
        return '<fstring>'

    def ev_BinOp(self, n, env):
        a, b = self.ev(n.left, env), self.ev(n.right, env)
        op = type(n.op)
        if op is ast.Add:
            if isinstance(a, SBytes) and isinstance(b, SBytes):
                return SBytes(merge(a.segs + b.segs))
            return a + b
        if op is ast.Sub:
            return a - b
        if op is ast.Mult:
            return a * b
        if op is ast.FloorDiv:
            if isinstance(a, int) and isinstance(b, int):
                return a // b
            if not self.truth(b > 0):
                raise Unsupported('division by a non-positive value')
            return a / b            # z3 Int division = floor for positive divisors
        if op is ast.Mod:
            if isinstance(a, int) and isinstance(b, int):
                return a % b
            if not self.truth(b > 0):
                raise Unsupported('modulo by a non-positive value')
            return a % b
        if op is ast.LShift and isinstance(b, int):
            return a * (1 << b)
        if op in (ast.BitOr, ast.BitAnd, ast.BitXor):
            if isinstance(a, int) and isinstance(b, int):
                return {ast.BitOr: a | b, ast.BitAnd: a & b, ast.BitXor: a ^ b}[op]
            # bit-wise combination of symbolic ints: an uninterpreted function (the kernels' post-conditions do not depend on it)
            f = z3.Function('bit' + op.__name__, z3.IntSort(), z3.IntSort(), z3.IntSort())
            return f(a if z3.is_expr(a) else z3.IntVal(a), b if z3.is_expr(b) else z3.IntVal(b))
        raise Unsupported(f'binop {op.__name__}')

    def ev_UnaryOp(self, n, env):
        if isinstance(n.op, ast.Not):
            return not self.truth(self.ev(n.operand, env))
        if isinstance(n.op, ast.USub):
            return -self.ev(n.operand, env)
        raise Unsupported('unaryop')

    def ev_BoolOp(self, n, env):
        # Python value semantics: `a or b` yields a if it is truthy else b (objects / None / tuples pass through);
        # solver-valued operands are decided by a fork and the result is their truth value
        is_and = isinstance(n.op, ast.And)
        last = None
        for v in n.values:
            last = self.ev(v, env)
            t = self.truth(last)
            if z3.is_expr(last) or isinstance(last, (bool, SBytes)):
                last = t
            if t != is_and:
                return last
        return last

    def ev_Compare(self, n, env):
        a = self.ev(n.left, env)
        out = []
        for op, c in zip(n.ops, n.comparators):
            b = self.ev(c, env)
            t = type(op)
            if t in (ast.In, ast.NotIn) and isinstance(b, (tuple, list)) and z3.is_expr(a):
                r = z3.Or(*[a == x for x in b]) if b else z3.BoolVal(False)
                out.append(r if t is ast.In else z3.Not(r))
            elif t is ast.In:
                out.append(b.__contains__(a))
            elif t is ast.NotIn:
                r = b.__contains__(a)
                out.append((not r) if isinstance(r, bool) else z3.Not(r))
            elif t is ast.Is:
                out.append(a is b)
            elif t is ast.IsNot:
                out.append(a is not b)
            else:
                if isinstance(a, SBytes) or isinstance(b, SBytes):
                    raise Unsupported('comparison of byte strings')
                out.append({ast.Gt: lambda: a > b, ast.Lt: lambda: a < b, ast.GtE: lambda: a >= b, ast.LtE: lambda: a <= b,
                            ast.Eq: lambda: a == b, ast.NotEq: lambda: a != b}[t]())
            a = b
        if len(out) == 1:
            return out[0]
        return z3.And(*[z3.BoolVal(x) if isinstance(x, bool) else x for x in out])

    def ev_IfExp(self, n, env):
        return self.ev(n.body, env) if self.truth(self.ev(n.test, env)) else self.ev(n.orelse, env)

    def ev_Subscript(self, n, env):
        v = self.ev(n.value, env)
        if isinstance(v, SBytes) and isinstance(n.slice, ast.Slice):
            lo = self.ev(n.slice.lower, env) if n.slice.lower else 0
            hi = self.ev(n.slice.upper, env) if n.slice.upper else None
            return self.slice(v, lo, hi)
        if isinstance(v, SBytes):
            raise Unsupported('byte indexing')
        return v[self.ev(n.slice, env)]

    def ev_Call(self, n, env):
        if isinstance(n.func, ast.Name):
            if n.func.id == 'len':
                v = self.ev(n.args[0], env)
                return v.length() if isinstance(v, SBytes) else v.__len__()
            if n.func.id == 'bytes' and len(n.args) == 1 and isinstance(n.args[0], ast.List):
                vals = [self.ev(e, env) for e in n.args[0].elts]
                self.lit += 1
                name = f'lit{self.lit}'
                env.setdefault('__lits__', {})[name] = vals
                return SBytes([(name, z3.IntVal(0), z3.IntVal(len(vals)))])
            if n.func.id == 'bytes' and len(n.args) == 1:
                v = self.ev(n.args[0], env)
                if isinstance(v, SBytes):
                    return v
            if n.func.id in ('min', 'max') and len(n.args) == 2:
                a, b = self.ev(n.args[0], env), self.ev(n.args[1], env)
                if n.func.id == 'min':
                    return a if self.truth(a <= b) else b
                return a if self.truth(a >= b) else b
        f = self.ev(n.func, env)
        args = [self.ev(a, env) for a in n.args]
        kw = {k.arg: self.ev(k.value, env) for k in n.keywords}
        return f(*args, **kw)

    def slice(self, v, lo, hi):
        """Python slice semantics for non-negative bounds; clamping cases fork"""
        segs = merge(v.segs)
        if not segs:
            return SBytes([])
        if not self.truth(lo >= 0) or (hi is not None and not self.truth(hi >= 0)):
            raise Unsupported('negative slice index')
        if hi is not None:
            # keep the first `hi` bytes
            kept, left = [], hi
            for b, s0, l0 in segs:
                if self.truth(left >= l0):
                    kept.append((b, s0, l0))
                    left = z3.simplify(left - l0)
                else:
                    if self.truth(left > 0):
                        kept.append((b, s0, left))
                    break
            segs = kept
        out, skip = [], lo
        for b, s0, l0 in segs:
            if self.truth(skip >= l0):
                skip = z3.simplify(skip - l0)
                continue
            out.append((b, z3.simplify(s0 + skip), z3.simplify(l0 - skip)))
            skip = z3.IntVal(0)
        return SBytes(merge(out))

    # ---- branching: decisions are replayed from self.trace, new ones are queued
    def truth(self, c):
        if isinstance(c, bool):
            return c
        if c is None:
            return False
        if isinstance(c, int):
            return c != 0
        if isinstance(c, SBytes):
            c = c.length() > 0
        elif isinstance(c, (Obj, tuple, list, str)):
            return bool(c) if not isinstance(c, Obj) else True
        elif z3.is_int(c):
            c = c != 0
        elif hasattr(c, '__len__') and not z3.is_expr(c):
            r = c.__len__()
            c = r > 0
            if isinstance(c, bool):
                return c
        c = z3.simplify(c)
        if z3.is_true(c):
            return True
        if z3.is_false(c):
            return False
        if self.pos < len(self.trace):
            d = self.trace[self.pos]
        else:
            self.nqueries += 2
            t_ok, f_ok = self.check(c), self.check(z3.Not(c))
            if t_ok and f_ok:
                d = True
                self.pending.append(self.trace[:self.pos] + [False])
            elif t_ok:
                d = True
            elif f_ok:
                d = False
            else:
                raise Infeasible()
            self.trace.append(d)
        self.pos += 1
        self.solver.add(c if d else z3.Not(c))
        return d

    def check(self, c):
        self.solver.push()
        self.solver.add(c)
        r = self.solver.check()
        self.solver.pop()
        if r == z3.unknown:
            raise Unsupported('solver answered unknown on a branch condition')
        return r == z3.sat

    def require(self, test, env):
        if not self.truth(self.ev(test, env)):
            raise Infeasible()

    # ---- statements
    def run_block(self, stmts, env):
        for st in stmts:
            self.run_stmt(st, env)

    def run_stmt(self, st, env):
        if isinstance(st, ast.Assign):
            v = self.ev(st.value, env)
            for t in st.targets:
                self.assign(t, v, env)
        elif isinstance(st, ast.AnnAssign):
            if st.value is not None:
                self.assign(st.target, self.ev(st.value, env), env)
        elif isinstance(st, ast.AugAssign):
            cur, v = self.ev(st.target, env), self.ev(st.value, env)
            if isinstance(st.op, ast.Add):
                r = SBytes(merge(cur.segs + v.segs)) if isinstance(cur, SBytes) else cur + v
            elif isinstance(st.op, ast.Sub):
                r = cur - v
            else:
                raise Unsupported('augassign')
            self.assign(st.target, r, env)
        elif isinstance(st, ast.Expr):
            v = st.value
            if isinstance(v, ast.Constant):
                return
            if isinstance(v, ast.Call) and isinstance(v.func, ast.Attribute) and isinstance(v.func.value, ast.Name) and v.func.value.id == 'logger':
                return
            self.ev(v, env)
        elif isinstance(st, ast.If):
            self.run_block(st.body if self.truth(self.ev(st.test, env)) else st.orelse, env)
        elif isinstance(st, ast.Return):
            raise _Return(self.ev(st.value, env) if st.value else None)
        elif isinstance(st, ast.Pass):
            pass
        elif isinstance(st, ast.Try):
            # handlers are for exceptions of collaborators, which are stubs here and do not raise
            self.run_block(st.body, env)
            self.run_block(st.orelse, env)
            self.run_block(st.finalbody, env)
        elif isinstance(st, ast.Continue):
            raise _Continue()
        elif isinstance(st, ast.Raise):
            raise _Raise(ast.unparse(st.exc) if st.exc else '')
        elif isinstance(st, ast.Assert):
            if not self.truth(self.ev(st.test, env)):
                raise _Raise('AssertionError')
        else:
            raise Unsupported(f'stmt {type(st).__name__} at line {st.lineno}')

    def assign(self, t, v, env):
        if isinstance(t, ast.Name):
            env[t.id] = v
        elif isinstance(t, ast.Attribute):
            o = self.ev(t.value, env)
            setattr(o, t.attr, v)
        elif isinstance(t, ast.Tuple):
            for tt, vv in zip(t.elts, v):
                self.assign(tt, vv, env)
        elif isinstance(t, ast.Subscript) and not isinstance(t.slice, ast.Slice):
            self.ev(t.value, env)[self.ev(t.slice, env)] = v
        else:
            raise Unsupported('assign target')

    def explore(self, body, make_env, on_path, entry=None):
        """all paths of `body` from the state built by make_env(solver); entry(interp, env) may constrain the start (e.g. loop guard)"""
        self.pending = [[]]
        while self.pending:
            self.trace = self.pending.pop()
            self.pos = 0
            self.solver.push()
            try:
                env, ctx = make_env(self.solver)
                if entry is not None:
                    entry(self, env)
                ret = None
                try:
                    self.run_block(body, env)
                except _Return as r:
                    ret = r.value
                except _Continue:
                    ret = 'continue'
                except _Raise as r:
                    ret = ('raise', r.what)
                self.npaths += 1
                on_path(env, ctx, self, ret)
            except Infeasible:
                pass
            finally:
                self.solver.pop()


def source_of(fn, repl=None):
    src = textwrap.dedent(inspect.getsource(fn))
    # inspect reads the file by the line numbers of the loaded code object: if the file was edited after the import,
    # the text is something else - refuse rather than analyse the wrong function
    name = getattr(fn, '__name__', '')
    if name and f'def {name}(' not in src.split(':', 1)[0] + ':' and not any(l.lstrip().startswith((f'def {name}(', f'async def {name}(')) for l in src.splitlines()[:6]):
        raise Unsupported(f'source of {name} on disk does not match the loaded function (file changed after import?)')
    if repl:
        assert repl[0] in src, 'mutation anchor not found'
        src = src.replace(*repl)
    return src


def func_ast(fn, repl=None):
    return ast.parse(source_of(fn, repl)).body[0]


def first(node, kind):
    for n in ast.walk(node):
        if isinstance(n, kind):
            return n
    raise KeyError(kind)


class VC:
    """collects the per-path checks of one obligation"""

    def __init__(self, interp, names):
        self.it, self.names, self.cex, self.unknown, self.checked = interp, names, None, 0, 0

    def must(self, ok):
        s = self.it.solver
        s.push()
        s.add(z3.Not(ok))
        r = s.check()
        self.it.nqueries += 1
        self.checked += 1
        if r == z3.sat and self.cex is None:
            m = s.model()
            self.cex = {str(d): (m[d].as_long() if z3.is_int_value(m[d]) else str(m[d])) for d in m.decls() if str(d) in self.names}
        elif r == z3.unknown:
            self.unknown += 1
        s.pop()


# ---------------------------------------------------------------------------------------------- bit-vector values
class BVInt:
    """a Python int that is known to fit W bits, as a z3 bit-vector (no wrap-around can occur within the stated widths)"""
    W = 160

    def __init__(self, bv, rt):
        self.bv, self.rt = bv, rt

    def _o(self, o):
        return o.bv if isinstance(o, BVInt) else z3.BitVecVal(o, self.W)

    def __lshift__(self, k):
        return BVInt(self.bv << k, self.rt)

    def __rshift__(self, k):
        return BVInt(z3.LShR(self.bv, k), self.rt)

    def __xor__(self, o):
        return BVInt(self.bv ^ self._o(o), self.rt)

    __rxor__ = __xor__

    def __and__(self, o):
        return BVInt(self.bv & self._o(o), self.rt)

    __rand__ = __and__

    def __or__(self, o):
        return BVInt(self.bv | self._o(o), self.rt)

    def __gt__(self, o):
        return self.rt.decide(z3.UGT(self.bv, self._o(o)))

    def __ge__(self, o):
        return self.rt.decide(z3.UGE(self.bv, self._o(o)))

    def __lt__(self, o):
        return self.rt.decide(z3.ULT(self.bv, self._o(o)))

    def __eq__(self, o):
        return self.rt.decide(self.bv == self._o(o))

    def __ne__(self, o):
        return self.rt.decide(self.bv != self._o(o))

    def __bool__(self):
        return self.rt.decide(self.bv != 0)

    __hash__ = None

    def to_bytes(self, n, order):
        assert order == 'big'
        return BVBytes(z3.Extract(8 * n - 1, 0, self.bv), n, self.rt)


class BVBytes:
    """a bytes object of known length n as a bit-vector of 8n bits (big-endian)"""

    def __init__(self, bv, n, rt):
        self.bv, self.n, self.rt = bv, n, rt

    def __len__(self):
        return self.n

    def __getitem__(self, i):
        if isinstance(i, slice):
            lo, hi, _ = i.indices(self.n)
            return BVBytes(z3.Extract(8 * (self.n - lo) - 1, 8 * (self.n - hi), self.bv), hi - lo, self.rt)
        if i < 0:
            i += self.n
        return BVInt(z3.ZeroExt(BVInt.W - 8, z3.Extract(8 * (self.n - i) - 1, 8 * (self.n - i - 1), self.bv)), self.rt)

    def as_int(self):
        return BVInt(z3.ZeroExt(BVInt.W - 8 * self.n, self.bv), self.rt)


class _IntShim:
    @staticmethod
    def from_bytes(b, order='big'):
        assert order == 'big'
        return b.as_int()


class BVRuntime:
    """re-executes a Python callable over BV values once per feasible decision vector"""

    def __init__(self, timeout_ms=60000):
        self.solver = z3.Solver()
        self.solver.set('timeout', timeout_ms)
        self.paths = self.queries = 0

    def decide(self, c):
        c = z3.simplify(c)
        if z3.is_true(c):
            return True
        if z3.is_false(c):
            return False
        if self.pos < len(self.trace):
            d = self.trace[self.pos]
        else:
            self.queries += 2
            t_ok, f_ok = self._sat(c), self._sat(z3.Not(c))
            if t_ok and f_ok:
                d = True
                self.pending.append(self.trace[:self.pos] + [False])
            elif t_ok:
                d = True
            elif f_ok:
                d = False
            else:
                raise Infeasible()
            self.trace.append(d)
        self.pos += 1
        self.solver.add(c if d else z3.Not(c))
        return d

    def _sat(self, c):
        self.solver.push()
        self.solver.add(c)
        r = self.solver.check()
        self.solver.pop()
        if r == z3.unknown:
            raise Unsupported('solver unknown on a branch')
        return r == z3.sat

    def explore(self, run):
        self.pending = [[]]
        while self.pending:
            self.trace, self.pos = self.pending.pop(), 0
            self.solver.push()
            try:
                run(self)
                self.paths += 1
            except Infeasible:
                pass
            finally:
                self.solver.pop()


def compile_with(fn_or_src, namespace, repl=None):
    """compile the real source of a function into `namespace` (so that its globals are ours)"""
    src = fn_or_src if isinstance(fn_or_src, str) else source_of(fn_or_src, repl)
    code = compile(ast.parse(src), '<e2>', 'exec')
    exec(code, namespace)
    return namespace


# ---------------------------------------------------------------------------------------------- driver
def run(prop, tier, obligations):
    """obligations: list of dicts {name, kernel, bounds, fn() -> dict(status, paths, queries, model?, detail?), validate() -> (ok, detail), replay(model) -> (reproduced, detail), mutants: [(name, fn)]}"""
    results = []
    t_all = time.time()
    for ob in obligations:
        t0 = time.time()
        rec = {'name': ob['name'], 'kernel': ob['kernel'], 'bounds': ob['bounds']}
        try:
            ok, detail = ob['validate']() if ob.get('validate') else (True, 'no concrete samples')
            rec['translation_validation'] = detail
            if not ok:
                rec.update(status='invalid-translation', detail=detail, paths=0, queries=0)
            else:
                r = ob['fn']()
                rec.update(r)
                if r['status'] == 'violated' and ob.get('replay'):
                    rep, d = ob['replay'](r.get('model') or {})
                    rec['detail'] = (r.get('detail', '') + ' | replay on the real function: ' + d)[:400]
                    if not rep:
                        rec['status'] = 'artefact'
        except Unsupported as e:
            rec.update(status='unsupported', detail=str(e), paths=0, queries=0)
        except Exception as e:       # a kernel whose shape changed under the translator: inconclusive, not a verdict
            rec.update(status='error', detail=f'{type(e).__name__}: {e}'[:300], paths=0, queries=0)
        if tier == 'thorough' and rec.get('status') == 'proved':
            killed, survived = [], []
            for mname, mfn in ob.get('mutants', []):
                try:
                    mr = mfn()
                    (killed if mr['status'] == 'violated' else survived).append(mname)
                except Exception as e:
                    survived.append(f'{mname} ({type(e).__name__})')
            rec['mutants_killed'], rec['mutants_survived'] = killed, survived
        rec['time_s'] = round(time.time() - t0, 2)
        results.append(rec)
    return {'results': results, 'obligations': len(results), 'discharged': sum(r['status'] == 'proved' for r in results),
            'paths': sum(r.get('paths', 0) for r in results), 'queries': sum(r.get('queries', 0) for r in results),
            'inconclusive': [r['name'] for r in results if r['status'] not in ('proved', 'violated')],
            'solver': 'z3 ' + z3.get_version_string(), 'time_s': round(time.time() - t_all, 2)}
