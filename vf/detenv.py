"""Deterministic environment for whole-object-graph harnesses: clock and randomness become fixed
counters (each stub is an assumption listed in the evidence).  Nothing is patched at import time;
reset() installs the stubs (in the harness process) and rewinds the counters."""
import os
import random
import secrets
import time

_t = [1000.0]
_c = [0]
_installed = [False]


def _time():
    _t[0] += 0.001
    return _t[0]


def _next(n=256):
    _c[0] = (_c[0] * 1103515245 + 12345) % (2 ** 31)
    return (_c[0] >> 8) % n


def install():
    if _installed[0]:
        return
    _installed[0] = True
    time.time = _time
    time.monotonic = _time
    random.randint = lambda a, b: a + _next(b - a + 1)
    random.random = lambda: _next(1000) / 1000.0
    random.getrandbits = lambda k: int.from_bytes(bytes(_next() for _ in range((k + 7) // 8)), 'big') % (1 << k)
    secrets.token_bytes = lambda n=32: bytes(_next() for _ in range(n))
    secrets.randbelow = lambda n: _next(n)
    os.urandom = lambda n: bytes(_next() for _ in range(n))


def reset():
    install()
    _t[0] = 1000.0
    _c[0] = 0
