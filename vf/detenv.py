"""Deterministic environment for whole-object-graph harnesses: clock and randomness become fixed
counters (each stub is an assumption listed in the evidence)."""
import time, random, secrets, os
_t = [1000.0]
def _time(): _t[0] += 0.001; return _t[0]
time.time = _time; time.monotonic = _time
_c = [0]
def _next(n=256): _c[0] = (_c[0] * 1103515245 + 12345) % (2 ** 31); return _c[0] % n
random.randint = lambda a, b: a + _next(b - a + 1)
random.random = lambda: _next(1000) / 1000.0
secrets.token_bytes = lambda n=32: bytes(_next() for _ in range(n))
secrets.randbelow = lambda n: _next(n)
os.urandom = lambda n: bytes(_next() for _ in range(n))
def reset(): _t[0] = 1000.0; _c[0] = 0
