"""./check <ID> --tier quick|thorough : decide one property with E1 (CrossHair/z3 on the real code)
and, where the property module provides them, E2 verification conditions (AST -> z3)."""
from __future__ import annotations

import argparse
import fnmatch
import hashlib
import inspect
import json
import os
import random
import shutil
import sys
import tempfile
import time

from vf import e1
from vf.e1 import Job, EXIT_OK, EXIT_VIOLATION, EXIT_HARNESS
from vf import replay as replay_mod

VERIF = e1.VERIF
KNOWN = os.path.join(VERIF, 'known_findings.json')
OUT = VERIF


def load_known(prop: str):
    try:
        data = json.load(open(KNOWN))
    except FileNotFoundError:
        return []
    return [f for f in data.get('findings', []) if f['property'] == prop]


def finding_matches(f, cond_name: str, args: dict) -> bool:
    if not fnmatch.fnmatchcase(cond_name, f['condition']):
        return False
    try:
        return bool(eval(f['when'], {}, dict(args)))
    except Exception:
        return False


def source_hash(qualname: str):
    """qualified name 'bumble.host.DataPacketQueue.flush' -> sha1 of its current source"""
    import importlib
    parts = qualname.split('.')
    for i in range(len(parts), 0, -1):
        try:
            obj = importlib.import_module('.'.join(parts[:i]))
        except ImportError:
            continue
        try:
            for p in parts[i:]:
                obj = getattr(obj, p)
            obj = getattr(obj, '__func__', obj)
            obj = getattr(obj, 'fget', obj)
            return hashlib.sha1(inspect.getsource(obj).encode()).hexdigest()[:12]
        except Exception:
            return None
    return None


def main(argv=None) -> int:
    ap = argparse.ArgumentParser()
    ap.add_argument('prop')
    ap.add_argument('--tier', default=os.environ.get('VERIF_TIER') or 'quick')
    ap.add_argument('--workers', type=int, default=int(os.environ.get('VERIF_WORKERS', '8')))
    ap.add_argument('--only', default=None, help='glob on condition names (debugging; evidence not written)')
    ap.add_argument('--replay', default=None)
    ap.add_argument('--no-canaries', action='store_true')
    ap.add_argument('-v', action='store_true')
    a = ap.parse_args(argv)
    if os.environ.get('VERIF_TIER') in ('quick', 'thorough'):
        a.tier = os.environ['VERIF_TIER']
    prop = a.prop.upper()
    tier = a.tier
    ti = 0 if tier == 'quick' else 1
    seed = int(os.environ.get('VERIF_SEED', '0') or 0)
    t_start = time.time()

    if a.replay:
        spec = json.load(open(a.replay))
        ok, detail = replay_mod.run(spec)
        print(('REPRODUCED ' if ok else 'NOT-REPRODUCED ') + detail)
        if ok:
            print(f'VIOLATION property={spec["property"]} replay={a.replay}')
        return EXIT_VIOLATION if ok else EXIT_OK

    global OUT
    OUT = os.environ.get('VERIF_OUT', VERIF)     # evidence/ and replays/ go here (seed runs redirect it)
    os.makedirs(os.path.join(OUT, 'evidence'), exist_ok=True)
    os.makedirs(os.path.join(OUT, 'replays'), exist_ok=True)
    scratch = tempfile.mkdtemp(prefix=f'verif-{prop}-')
    os.environ['VERIF_SCRATCH'] = scratch
    try:
        return _run(prop, tier, ti, seed, a, scratch, t_start)
    finally:
        shutil.rmtree(scratch, ignore_errors=True)


def _run(prop, tier, ti, seed, a, scratch, t_start) -> int:
    from vf import shim  # noqa: installs the modelling shim in this (parent) process
    from vf import props
    conds = props.conditions(prop, tier)
    if a.only:
        conds = [c for c in conds if fnmatch.fnmatchcase(c.name, a.only)]
    shim_conds = props.conditions('SHIMTEST', tier)
    known = load_known(prop)
    rnd = random.Random(seed)

    def log(j: Job):
        if a.v:
            st, d = e1.classify(j.result)
            print(f'  [{j.kind}] {j.cond.name}: {st} paths={j.result.get("paths")} {j.result.get("wall_s", 0):.1f}s {d or ""}'[:300], flush=True)

    # ---- shim self-test (machinery; failure = exit 3)
    sjobs = [Job(c, 'main', timeout=30.0) for c in shim_conds]
    from vf import flags
    saved_flag, flags.int_format_placeholder = flags.int_format_placeholder, False     # the self-test checks exact formatting
    e1.run_jobs('SHIMTEST', tier, sjobs, scratch, a.workers, log)
    flags.int_format_placeholder = saved_flag
    for j in sjobs:
        st, d = e1.classify(j.result)
        if st != 'confirmed':
            print(f'HARNESS-ERROR shim self-test {j.cond.name}: {st} {d}')
            return EXIT_HARNESS

    # ---- main conditions and reachability twins
    jobs = [Job(c, 'main', timeout=c.timeout[ti]) for c in conds]
    jobs += [Job(c, 'twin', timeout=max(10.0, min(c.timeout[ti], 30.0))) for c in conds if c.twin]
    rnd.shuffle(jobs)
    jobs.sort(key=lambda j: -j.timeout * j.cond.weight)     # long ones first
    e1.run_jobs(prop, tier, jobs, scratch, a.workers, log)

    violations, known_hit, artefacts, inconclusive, confirmed = [], [], [], [], []
    twins_ok, twins_bad = 0, []
    n_replayed = 0
    records = []
    work = [j for j in jobs if j.kind == 'main']
    twin_jobs = [j for j in jobs if j.kind == 'twin']
    round_no = 0
    while work:
        round_no += 1
        rerun = []
        for j in work:
            st, detail = e1.classify(j.result)
            rec = {'condition': j.cond.name, 'family': j.cond.family, 'verdict': st, 'paths': j.result.get('paths', 0),
                   'solver_calls': j.result.get('solver_calls', 0), 'solver_s': round(j.result.get('solver_s', 0.0), 3),
                   'wall_s': round(j.result.get('wall_s', 0.0), 2), 'excluded_known': list(j.excluded)}
            if st == 'confirmed':
                confirmed.append(j)
            elif st == 'inconclusive' and j.excluded and 'PRE_UNSAT' in (detail or ''):
                rec['verdict'] = 'known-finding-only'
                rec['reason'] = 'the known finding(s) cover every input of this condition'
            elif st == 'inconclusive':
                rec['reason'] = detail
                inconclusive.append((j, detail))
            else:
                parsed = e1._parse_call(detail)
                if parsed is None:
                    rec['verdict'] = 'inconclusive'
                    rec['reason'] = 'counterexample arguments not parseable: ' + detail[:200]
                    inconclusive.append((j, rec['reason']))
                    records.append(rec)
                    continue
                names = [n for n, _ in j.cond.sym_params()]
                args = dict(zip(names, parsed['a']))
                args.update(parsed['k'])
                rp = os.path.join(OUT, 'replays', f'{prop}-{j.cond.name}-{len(violations) + len(known_hit) + len(artefacts)}.json')
                spec = {'property': prop, 'condition': j.cond.name, 'args': {k: replay_mod.encode(v) for k, v in args.items()},
                        'extra_pre': list(j.extra_pre), 'crosshair_message': detail[:500]}
                json.dump(spec, open(rp, 'w'), indent=1)
                ok, rdetail = e1.replay_file(rp)
                n_replayed += 1
                rec['counterexample'] = {k: replay_mod.encode(v) for k, v in args.items()}
                rec['replay'] = rdetail
                if not ok:
                    rec['verdict'] = 'inconclusive'
                    rec['reason'] = 'model artefact: counterexample does not reproduce on plain CPython'
                    artefacts.append((j, args, rdetail))
                    os.remove(rp)
                else:
                    hit = next((f for f in known if finding_matches(f, j.cond.name, {**j.cond.fixed, **args})), None)
                    if hit is not None and hit['id'] not in j.excluded and len(j.excluded) < 6:
                        rec['verdict'] = 'known-finding'
                        rec['finding'] = hit['id']
                        known_hit.append((hit, j.cond.name, args))
                        os.remove(rp)
                        nj = Job(j.cond, 'main', extra_pre=tuple(j.extra_pre) + (f'not ({hit["when"]})',), timeout=j.timeout,
                                 excluded=tuple(j.excluded) + (hit['id'],))
                        rerun.append(nj)
                    else:
                        rec['verdict'] = 'violation'
                        violations.append((j, args, rp, rdetail))
            records.append(rec)
        if rerun:
            e1.run_jobs(prop, tier, rerun, scratch, a.workers, log)
        work = rerun

    for j in twin_jobs:
        st, detail = e1.classify(j.result)
        if st == 'cex':
            twins_ok += 1
        else:
            twins_bad.append(j.cond.name)

    # ---- canaries (thorough tier): in-process faults that the harness must detect
    canaries_killed, canaries_survived = [], []
    if tier == 'thorough' and not a.no_canaries:
        cj = [Job(c, 'canary', canary=name, timeout=c.timeout[ti]) for c in conds for name, _ in c.canaries]
        e1.run_jobs(prop, tier, cj, scratch, a.workers, log)
        for j in cj:
            st, detail = e1.classify(j.result)
            killed = False
            if st == 'cex':
                parsed = e1._parse_call(detail)
                if parsed is not None:
                    names = [n for n, _ in j.cond.sym_params()]
                    args = dict(zip(names, parsed['a']))
                    args.update(parsed['k'])
                    rp = os.path.join(scratch, f'canary-{j.cond.name}-{j.canary}.json')
                    json.dump({'property': prop, 'condition': j.cond.name, 'canary': j.canary,
                               'args': {k: replay_mod.encode(v) for k, v in args.items()}}, open(rp, 'w'))
                    killed, _ = e1.replay_file(rp)
            (canaries_killed if killed else canaries_survived).append(f'{j.cond.name}/{j.canary}')

    # ---- E2 obligations
    e2_res = None
    m = props.module(prop)
    if hasattr(m, 'e2_obligations') and not a.only:
        from vf import e2
        e2_res = e2.run(prop, tier, m.e2_obligations(tier))
        for ob in e2_res['results']:
            if ob['status'] == 'violated':
                hit = next((f for f in known if fnmatch.fnmatchcase('e2:' + ob['name'], f['condition'])), None)
                if hit:
                    known_hit.append((hit, 'e2:' + ob['name'], ob.get('model', {})))
                else:
                    rp = os.path.join(OUT, 'replays', f'{prop}-e2-{ob["name"]}.json')
                    json.dump({'property': prop, 'e2': ob['name'], 'model': ob.get('model')}, open(rp, 'w'), indent=1)
                    violations.append((None, ob.get('model'), rp, ob.get('detail', '')))

    # ---- evidence
    wall = time.time() - t_start
    kernels = sorted({k for c in conds for k in c.kernels})
    total_paths = sum(r['paths'] for r in records)
    nontrivial = len({r['condition'] for r in records if r['paths'] >= 2})
    samples = []
    for c in conds[:12]:
        samples.append({'condition': c.name, 'symbolic': [f'{n}: {t}' for n, t in c.sym_params()], 'pre': c.pre, 'fixed': {k: repr(v) for k, v in c.fixed.items()}, 'bounds': c.bounds})
    coverage = {
        'explanation': ('Bounded symbolic execution of the real code in /repo (CrossHair 0.0.110, z3 as the deciding step): each condition '
                        'is a harness over real bumble functions whose inputs are symbolic within the stated bounds; "confirmed" means every '
                        'execution path was explored and the negated property was unsat on each; counterexamples are replayed on plain CPython '
                        'before being reported; time-outs/unknown are inconclusive, never success.'),
        'evaluations': total_paths + (e2_res['paths'] if e2_res else 0),
        'distinct_nontrivial': nontrivial + (e2_res['discharged'] if e2_res else 0),
        'rule': 'evaluations = execution paths explored symbolically (one crosshair.core.attempt_call each) plus E2 paths; a condition is non-trivial when it reached its assertion on >= 2 distinct paths; distinct by condition name',
        'samples': samples,
        'conditions': len(conds),
        'confirmed': len({j.cond.name for j in confirmed}),
        'inconclusive': [{'condition': j.cond.name, 'reason': (d or '')[:300]} for j, d in inconclusive] +
                        [{'condition': j.cond.name, 'reason': 'model artefact (not reproducible): ' + repr(args)[:200]} for j, args, _ in artefacts],
        'counterexamples_replayed': n_replayed,
        'known_findings_hit': [{'id': f['id'], 'condition': cn, 'args': {k: replay_mod.encode(v) for k, v in (ar or {}).items()}} for f, cn, ar in known_hit],
        'paths': total_paths,
        'solver_calls': sum(r['solver_calls'] for r in records),
        'solver_time_s': round(sum(r['solver_s'] for r in records), 2),
        'functions_encoded': [{'name': k, 'source_sha1': source_hash(k)} for k in kernels],
        'bounds': sorted({c.bounds for c in conds if c.bounds}),
        'twins_ok': twins_ok, 'twins_failed': twins_bad,
        'canaries_killed': canaries_killed, 'canaries_survived': canaries_survived, 'canaries_note': 'a canary is missed only if no grid point of its harness refutes it (some grid points cannot distinguish it by construction)',
        'per_condition': records,
        'obligations': len(conds) + (e2_res['obligations'] if e2_res else 0),
        'discharged': len({j.cond.name for j in confirmed}) + (e2_res['discharged'] if e2_res else 0),
        'exhaustive': False,
    }
    if e2_res:
        coverage['e2'] = e2_res
    assumptions = sorted({p for c in conds for p in c.pre} | set(getattr(m, 'ASSUMPTIONS', [])))
    ev = {'property_id': prop, 'tier': tier, 'seed': seed, 'level': 'other', 'coverage': coverage,
          'assumptions': assumptions[:400], 'wall_s': round(wall, 2), 'violations': len(violations)}
    if not a.only:
        with open(os.path.join(OUT, 'evidence', f'{prop}.json'), 'w') as f:
            json.dump(ev, f, indent=1, default=str)

    # ---- report
    seen = set()
    for f, cn, ar in known_hit:
        if f['id'] in seen:
            continue
        seen.add(f['id'])
        print(f'KNOWN-FINDING: property={prop} {f["id"]}: {f["what"]}')
    print(f'{prop} {tier}: {len(conds)} conditions, {coverage["confirmed"]} confirmed, {len(inconclusive) + len(artefacts)} inconclusive, '
          f'{len(violations)} violations, {len(seen)} known findings; paths={total_paths} solver={coverage["solver_time_s"]}s wall={wall:.0f}s'
          + (f'; E2 {e2_res["discharged"]}/{e2_res["obligations"]} VCs' if e2_res else ''))
    for j, d in inconclusive:
        print(f'  inconclusive: {j.cond.name}: {(d or "")[:160]}')
    for ob in (e2_res['results'] if e2_res else []):
        if ob['status'] not in ('proved', 'violated'):
            print(f'  inconclusive: e2:{ob["name"]}: {ob["status"]}: {ob.get("detail", "")[:160]}')
        if ob.get('mutants_survived'):
            print(f'  WARNING e2:{ob["name"]} mutants not refuted: {ob["mutants_survived"]}')
    for j, args, d in artefacts:
        print(f'  model artefact (discarded): {j.cond.name} {args!r}'[:200])
    if twins_bad:
        print(f'  WARNING reachability twins not violated: {twins_bad}')
    # a seeded fault counts as missed only if no condition of its harness (any grid point) refutes it
    def _base(x):
        cond, can = x.rsplit('/', 1)
        return cond.split('@')[0] + '/' + can
    killed_bases = {_base(x) for x in canaries_killed}
    missed = sorted({_base(x) for x in canaries_survived} - killed_bases)
    if missed:
        print(f'  WARNING canaries survived (sensitivity: failed): {missed}')
    for j, args, rp, d in violations:
        nm = j.cond.name if j else 'e2'
        print(f'  counterexample {nm}: {args!r} -> {d}'[:400])
        print(f'VIOLATION property={prop} replay={rp}')
    return EXIT_VIOLATION if violations else EXIT_OK


if __name__ == '__main__':
    sys.exit(main())
