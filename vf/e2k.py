"""E2 kernels: each function returns one obligation for vf.e2.run (see vf/e2.py).

Every kernel has: the symbolic run over the AST of the real source (`fn`), a translation validation on concrete
pre-states against the real function (`validate`), a replay of a counterexample on the real function
(`replay`), and source mutants that the obligation must refute (thorough tier)."""
import ast
import collections

import z3

from vf.e2 import (Interp, Obj, SBytes, VC, Unsupported, func_ast, first, source_of, BVRuntime, BVBytes, BVInt, _IntShim, compile_with)


def _ints(model_or_none, solver, exprs):
    """evaluate z3 expressions under the (unique) model of a fully pinned path"""
    assert solver.check() == z3.sat
    m = solver.model()
    return [m.eval(e, model_completion=True).as_long() if z3.is_expr(e) else e for e in exprs]


def _status(vc, it):
    if vc.cex is not None:
        return {'status': 'violated', 'model': vc.cex, 'paths': it.npaths, 'queries': it.nqueries, 'detail': f'negated post-condition satisfiable: {vc.cex}'}
    if vc.unknown or not vc.checked:
        return {'status': 'unknown', 'paths': it.npaths, 'queries': it.nqueries, 'detail': f'{vc.unknown} unknown answers, {vc.checked} checks'}
    return {'status': 'proved', 'paths': it.npaths, 'queries': it.nqueries}


_LOGGER = Obj(debug=lambda *a, **k: None, warning=lambda *a, **k: None, info=lambda *a, **k: None)


# ================================================================================= C05: Host.send_acl_sdu
def acl_fragmentation():
    from bumble import host, hci

    def symbolic(repl=None, pin=None, out=None):
        fn = func_ast(host.Host.send_acl_sdu, repl)
        loop = first(fn, ast.For)
        if ast.unparse(loop.iter) != 'range(0, len(sdu), max_packet_size)' or ast.unparse(loop.target) != 'offset':
            raise Unsupported('send_acl_sdu: loop header changed: ' + ast.unparse(loop.iter))
        solver = z3.Solver()
        solver.set('timeout', 60000)
        it = Interp(solver, stubs={'logger': _LOGGER})
        vc = VC(it, ('L', 'm', 'k'))

        def make_env(s):
            L, m, k = z3.Ints('L m k')
            # iteration k of range(0, L, m): offset = k*m < L (the range's own invariant)
            s.add(L >= 1, L <= 70000, m >= 1, m <= 65535, k >= 0, k * m < L)
            for name, v in (pin or {}).items():
                s.add({'L': L, 'm': m, 'k': k}[name] == v)
            sent = []
            env = {'sdu': SBytes.base('sdu', L), 'max_packet_size': m, 'offset': k * m, 'connection_handle': z3.Int('h'),
                   'packet_queue': Obj(enqueue=lambda pkt, handle: sent.append((pkt, handle))), 'hci': Obj(HCI_AclDataPacket=lambda **kw: kw)}
            return env, dict(L=L, m=m, k=k, sent=sent)

        def on_path(env, ctx, it, ret):
            L, m, k, sent = ctx['L'], ctx['m'], ctx['k'], ctx['sent']
            if len(sent) != 1:
                vc.must(z3.BoolVal(False))
                return
            p, handle = sent[0]
            segs = p['data'].segs
            if len(segs) != 1 or segs[0][0] != 'sdu':
                vc.must(z3.BoolVal(False))
                return
            _, start, ln = segs[0]
            if out is not None:
                out.append(_ints(None, it.solver, [start, ln, p['pb_flag'], p['data_total_length']]))
                return
            vc.must(z3.And(ln >= 1, ln <= m, start == k * m, p['data_total_length'] == ln,
                           z3.Or(start + ln == L, z3.And(ln == m, start + ln < L)),         # a full fragment, or the last one ends the SDU
                           (p['pb_flag'] == 0) == (k == 0), z3.Or(p['pb_flag'] == 0, p['pb_flag'] == 1), p['bc_flag'] == 0,
                           p['connection_handle'] == env['connection_handle'], handle == env['connection_handle']))
        it.explore(loop.body, make_env, on_path)
        return vc, it

    def real(L, m):
        frags = []

        class Q:
            max_packet_size = m

            def enqueue(self, pkt, handle):
                frags.append((pkt.pb_flag, pkt.data_total_length, bytes(pkt.data), handle))
        h = host.Host.__new__(host.Host)
        h.connections = {5: Obj(acl_packet_queue=Q())}
        sdu = bytes(i % 251 for i in range(L))
        host.Host.send_acl_sdu(h, 5, sdu)
        return sdu, frags

    def real_ok(L, m):
        sdu, frags = real(L, m)
        return (b''.join(f[2] for f in frags) == sdu and all(1 <= len(f[2]) <= m and f[1] == len(f[2]) and f[3] == 5 for f in frags)
                and all((f[0] == 0) == (i == 0) for i, f in enumerate(frags)) and all(len(f[2]) == m for f in frags[:-1]))

    def validate():
        n = 0
        for L, m in ((1, 1), (5, 2), (27, 27), (28, 27), (54, 27), (100, 7), (65539, 1021), (300, 65535)):
            sdu, frags = real(L, m)
            for k in sorted({0, 1, len(frags) - 1}):
                if k >= len(frags):
                    continue
                out = []
                symbolic(pin={'L': L, 'm': m, 'k': k}, out=out)
                if len(out) != 1:
                    return False, f'interpreter produced {len(out)} paths for a concrete state L={L} m={m} k={k}'
                start, ln, pb, tl = out[0]
                if (pb, tl, sdu[start:start + ln]) != frags[k][:3]:
                    return False, f'mismatch at L={L} m={m} k={k}: interpreter {(start, ln, pb, tl)} vs real {frags[k][:2]}'
                n += 1
        return True, f'{n} concrete (L, m, k) states agree with the real Host.send_acl_sdu'

    def fn(repl=None):
        vc, it = symbolic(repl)
        return _status(vc, it)

    def replay(model):
        L, m = int(model.get('L', 1)), int(model.get('m', 1))
        ok = real_ok(L, m)
        return (not ok), f'real send_acl_sdu(L={L}, m={m}) {"violates" if not ok else "satisfies"} the fragment oracle'

    muts = [('pb-flag-from-second-fragment', ('pb_flag=1 if offset > 0 else 0', 'pb_flag=1 if offset > max_packet_size else 0')),
            ('fragment-one-byte-long', ('sdu[offset : offset + max_packet_size]', 'sdu[offset : offset + max_packet_size + 1]')),
            ('length-field-is-mtu', ('data_total_length=len(pdu)', 'data_total_length=max_packet_size'))]
    return {'name': 'send_acl_sdu-iteration', 'kernel': 'bumble.host.Host.send_acl_sdu (for-loop body)',
            'bounds': 'SDU length 1..70000, controller ACL packet size 1..65535, any iteration k (inductive step over the range invariant offset = k*m < L): fragment = sdu[k*m : k*m+len], 1 <= len <= m, full unless last, pb_flag = 0 exactly for k = 0',
            'fn': fn, 'validate': validate, 'replay': replay, 'mutants': [(n, (lambda r=r: fn(r))) for n, r in muts]}


# ================================================================================= C20: DLC.process_tx
def dlc_process_tx():
    from bumble import rfcomm

    def symbolic(repl=None, pin=None, out=None):
        fn = func_ast(rfcomm.DLC.process_tx, repl)
        loop = first(fn, ast.While)
        solver = z3.Solver()
        solver.set('timeout', 60000)
        it = Interp(solver, stubs={'logger': _LOGGER})
        names = ('B', 'mtu', 'txc', 'rxc', 'need')
        vc = VC(it, names)

        def make_env(s):
            B, mtu, txc, rxc, need = z3.Ints('B mtu txc rxc need')
            s.add(B >= 0, B <= 10 ** 6, mtu >= 2, mtu <= 32767, txc >= 0, txc <= 255, rxc >= 0, rxc <= 7, need >= 0, need <= 7)
            s.add(z3.Or(need == 0, z3.And(rxc <= 3, need == 7 - rxc)))          # what rx_credits_needed() can return (threshold 3, max 7)
            for name, v in (pin or {}).items():
                s.add({'B': B, 'mtu': mtu, 'txc': txc, 'rxc': rxc, 'need': need}[name] == v)
            frames = []
            selfo = Obj(tx_buffer=SBytes.base('buf', B), mtu=mtu, tx_credits=txc, rx_credits=rxc, c_r=1, dlci=4,
                        send_frame=lambda fr: frames.append(fr), drained=Obj(set=lambda: None))
            env = {'self': selfo, 'rx_credits_needed': need, 'RFCOMM_Frame': Obj(uih=lambda **kw: kw)}
            return env, dict(B=B, mtu=mtu, txc=txc, rxc=rxc, need=need, frames=frames, selfo=selfo)

        def on_path(env, ctx, it, ret):
            B, mtu, txc, rxc, need, frames, so = (ctx[k] for k in ('B', 'mtu', 'txc', 'rxc', 'need', 'frames', 'selfo'))
            if len(frames) != 1:
                vc.must(z3.BoolVal(False))
                return
            fr = frames[0]
            info = fr['information']
            data_len = info.length() - z3.If(need > 0, 1, 0)
            rest = so.tx_buffer
            if out is not None:
                out.append(_ints(None, it.solver, [data_len, fr['p_f'], so.tx_credits, so.rx_credits, rest.length()]))
                return
            tail_ok = (rest.segs[-1][1] + rest.segs[-1][2] == B) if (rest.segs and rest.segs[-1][0] == 'buf') else (rest.length() == 0)
            vc.must(z3.And(
                fr['p_f'] == z3.If(need > 0, 1, 0),
                data_len >= 0, data_len <= z3.If(need > 0, mtu - 1, mtu),           # the credit byte costs one byte of the frame
                z3.Implies(data_len > 0, txc > 0),                                   # never data without a credit
                so.tx_credits == txc - z3.If(data_len > 0, 1, 0),                    # a credit is spent iff data went out
                so.tx_credits >= 0,
                rest.length() == B - data_len, tail_ok,                              # the rest of the buffer is exactly what was not sent
                so.rx_credits == rxc + need, so.rx_credits <= 7,
                z3.Or(data_len > 0, need > 0),                                       # progress: every iteration sends something useful
                env['rx_credits_needed'] == 0))
        it.explore(loop.body, make_env, on_path, entry=lambda it, env: it.require(loop.test, env))
        return vc, it

    def real(B, mtu, txc, rxc):
        frames = []
        d = rfcomm.DLC.__new__(rfcomm.DLC)
        d.tx_buffer, d.mtu, d.tx_credits, d.rx_credits = bytes(i % 251 for i in range(B)), mtu, txc, rxc
        d.rx_max_credits, d.rx_credits_threshold, d.c_r, d.dlci = 7, 3, 1, 4
        d.send_frame = frames.append
        d.drained = Obj(set=lambda: None)
        rfcomm.DLC.process_tx(d)
        return d, frames

    def first_iteration(B, mtu, txc, rxc):
        d, frames = real(B, mtu, txc, rxc)
        need = 7 - rxc if rxc <= 3 else 0
        if not frames:
            return None
        fr = frames[0]
        info = fr.information
        return need, [len(info) - (1 if need else 0), fr.p_f]

    def validate():
        n = 0
        for B, mtu, txc, rxc in ((0, 23, 0, 0), (10, 23, 1, 7), (100, 23, 2, 2), (22, 23, 5, 3), (23, 23, 5, 3), (23, 23, 5, 5), (5000, 127, 0, 1), (1, 2, 1, 0), (70, 8, 255, 4)):
            r = first_iteration(B, mtu, txc, rxc)
            if r is None:
                continue
            need, want = r
            out = []
            symbolic(pin={'B': B, 'mtu': mtu, 'txc': txc, 'rxc': rxc, 'need': need}, out=out)
            if len(out) != 1 or out[0][:2] != want:
                return False, f'mismatch at B={B} mtu={mtu} txc={txc} rxc={rxc}: interpreter {out} vs real {want}'
            n += 1
        return True, f'{n} concrete ledger states agree with the first frame of the real DLC.process_tx'

    def real_ok(B, mtu, txc, rxc):
        d, frames = real(B, mtu, txc, rxc)
        data = b''
        spent = 0
        for i, fr in enumerate(frames):
            info = fr.information
            if fr.p_f:
                info = info[1:]
            if len(fr.information) > mtu:
                return False
            if info:
                spent += 1
            data += info
        whole = bytes(i % 251 for i in range(B))
        return data + d.tx_buffer == whole and spent <= txc and d.tx_credits == txc - spent and d.rx_credits <= 7

    def fn(repl=None):
        vc, it = symbolic(repl)
        return _status(vc, it)

    def replay(model):
        B, mtu, txc, rxc = (int(model.get(k, d)) for k, d in (('B', 0), ('mtu', 23), ('txc', 0), ('rxc', 0)))
        ok = real_ok(B, mtu, txc, rxc)
        return (not ok), f'real DLC.process_tx(B={B}, mtu={mtu}, tx_credits={txc}, rx_credits={rxc}) {"violates" if not ok else "satisfies"} the stream/credit oracle'

    muts = [('data-without-credit', ('if self.tx_buffer and self.tx_credits > 0:\n                chunk +=', 'if self.tx_buffer:\n                chunk +=')),
            ('credit-byte-not-counted', ('self.tx_buffer[: self.mtu - 1]', 'self.tx_buffer[: self.mtu]')),
            ('buffer-advance-off-by-one', ('self.tx_buffer[len(chunk) - 1 :]', 'self.tx_buffer[len(chunk) :]'))]
    return {'name': 'dlc-process_tx-iteration', 'kernel': 'bumble.rfcomm.DLC.process_tx (while-loop body)',
            'bounds': 'one iteration from an arbitrary ledger state: buffered bytes 0..10^6, frame size 2..32767, tx credits 0..255, rx credits 0..7 (threshold 3, max 7): frame <= N1 incl. the credit byte, data only with a credit, one credit per data frame, buffer advances by exactly what was sent, rx credits <= 7, progress',
            'fn': fn, 'validate': validate, 'replay': replay, 'mutants': [(n, (lambda r=r: fn(r))) for n, r in muts]}


# ================================================================================= C04: DataPacketQueue ledger
def queue_completed():
    from bumble import host

    def symbolic(repl=None, pin=None, out=None):
        fn = func_ast(host.DataPacketQueue.on_packets_completed, repl)
        solver = z3.Solver()
        solver.set('timeout', 60000)
        it = Interp(solver, stubs={'logger': _LOGGER})
        names = ('n', 'cif', 'other', 'queued', 'completed', 'waiting', 'maxif', 'known')
        vc = VC(it, names)

        def make_env(s):
            n, cif, other, queued, completed, waiting, maxif = z3.Ints('n cif other queued completed waiting maxif')
            known = z3.Bool('known')
            inflight = cif + other
            # representation invariant of the queue (what enqueue/_check_queue/flush maintain):
            s.add(n >= 0, n <= 70000, cif >= 0, other >= 0, maxif >= 1, maxif <= 65535, inflight <= maxif, waiting >= 0, completed >= 0,
                  queued == completed + inflight + waiting, queued <= 10 ** 9)
            for name, v in (pin or {}).items():
                s.add({'n': n, 'cif': cif, 'other': other, 'queued': queued, 'completed': completed, 'waiting': waiting, 'maxif': maxif}[name] == v)
            drained = []
            cs = Obj(in_flight=cif, drained=Obj(set=lambda: drained.append('set'), clear=lambda: drained.append('clear')))

            class States:
                def __contains__(self, h):
                    return known

                def __getitem__(self, h):
                    return cs
            calls = []
            selfo = Obj(_connection_state=States(), _in_flight=inflight, _completed=completed, _queued=queued, max_in_flight=maxif,
                        _check_queue=lambda: calls.append('check'), emit=lambda ev: calls.append(ev))
            env = {'self': selfo, 'packet_count': n, 'connection_handle': z3.Int('h')}
            return env, dict(n=n, cif=cif, other=other, queued=queued, completed=completed, waiting=waiting, known=known, cs=cs, so=selfo, calls=calls, drained=drained)

        def on_path(env, ctx, it, ret):
            n, cif, other, queued, completed, waiting, known, cs, so, calls, drained = (ctx[k] for k in ('n', 'cif', 'other', 'queued', 'completed', 'waiting', 'known', 'cs', 'so', 'calls', 'drained'))
            if out is not None:
                out.append(_ints(None, it.solver, [cs.in_flight, so._in_flight, so._completed]) + [list(calls), list(drained)])
                return
            acked = z3.If(n <= cif, n, cif)
            vc.must(z3.If(known,
                          z3.And(cs.in_flight == cif - acked, so._in_flight == cif + other - acked, so._completed == completed + acked,
                                 so._queued == so._completed + so._in_flight + waiting,                       # ledger stays balanced
                                 cs.in_flight >= 0, so._in_flight >= cs.in_flight,                            # another connection's share is untouched
                                 z3.BoolVal(calls == ['check', 'flow']),                                      # the queue is re-run and flow is announced
                                 z3.BoolVal(('set' in drained)) == (cs.in_flight == 0)),
                          z3.And(cs.in_flight == cif, so._in_flight == cif + other, so._completed == completed, z3.BoolVal(calls == []))))
        it.explore(fn.body, make_env, on_path)
        return vc, it

    def real(n, cif, other, completed, waiting, maxif, known=True):
        q = host.DataPacketQueue.__new__(host.DataPacketQueue)
        calls = []
        q._connection_state = {}
        if known:
            st = host.DataPacketQueue.PerConnectionState()
            st.in_flight = cif
            q._connection_state[1] = st
        q._in_flight, q._completed, q.max_in_flight = cif + other, completed, maxif
        q._queued = completed + cif + other + waiting
        q._packets = collections.deque()
        q._check_queue = lambda: calls.append('check')
        q.emit = lambda ev: calls.append(ev)
        host.DataPacketQueue.on_packets_completed(q, n, 1)
        return q, calls

    def validate():
        k = 0
        for n, cif, other, completed, waiting, maxif in ((0, 0, 0, 0, 0, 1), (1, 1, 0, 5, 0, 4), (3, 1, 2, 0, 7, 8), (2, 5, 1, 9, 0, 6), (5, 5, 0, 1, 1, 5), (70000, 3, 3, 3, 3, 6)):
            q, calls = real(n, cif, other, completed, waiting, maxif)
            out = []
            symbolic(pin={'n': n, 'cif': cif, 'other': other, 'completed': completed, 'waiting': waiting, 'maxif': maxif, 'queued': completed + cif + other + waiting}, out=[])
            vc_out = []
            symbolic(pin={'n': n, 'cif': cif, 'other': other, 'completed': completed, 'waiting': waiting, 'maxif': maxif}, out=vc_out)
            got = [o for o in vc_out if o[3] != []]            # the path where the connection is known
            want = [q._connection_state[1].in_flight, q._in_flight, q._completed]
            if len(got) != 1 or got[0][:3] != want or got[0][3] != calls:
                return False, f'mismatch at n={n} cif={cif} other={other}: interpreter {got} vs real {want} {calls}'
            k += 1
        return True, f'{k} concrete ledger states agree with the real DataPacketQueue.on_packets_completed'

    def fn(repl=None):
        vc, it = symbolic(repl)
        return _status(vc, it)

    def replay(model):
        g = lambda k, d=0: int(model.get(k, d))
        n, cif, other, completed, waiting, maxif = g('n'), g('cif'), g('other'), g('completed'), g('waiting'), g('maxif', 1)
        q, calls = real(n, cif, other, completed, waiting, max(maxif, 1), known=str(model.get('known', 'True')) != 'False')
        acked = min(n, cif)
        if str(model.get('known', 'True')) == 'False':
            ok = q._in_flight == cif + other and q._completed == completed and calls == []
        else:
            ok = (q._connection_state[1].in_flight == cif - acked and q._in_flight == cif + other - acked and q._completed == completed + acked
                  and q._queued == q._completed + q._in_flight + waiting and calls == ['check', 'flow'])
        return (not ok), f'real on_packets_completed(n={n}) from in_flight={cif}+{other}, completed={completed}, waiting={waiting} {"violates" if not ok else "satisfies"} the ledger oracle'

    muts = [('per-connection-clamp-removed', ('        packet_count = connection_state.in_flight\n', '')),
            ('completed-not-advanced', ('        self._completed += packet_count\n', '')),
            ('queue-not-rerun', ('    self._check_queue()\n', ''))]
    return {'name': 'queue-on_packets_completed', 'kernel': 'bumble.host.DataPacketQueue.on_packets_completed',
            'bounds': 'one call from an arbitrary queue state satisfying the representation invariant (queued = completed + in flight + waiting; this connection in flight <= total in flight <= max 1..65535), reported count 0..70000 (over-reports included), known or unknown handle: the ledger stays balanced, only this connection\'s share is released, an unknown handle changes nothing, the queue is re-run and flow is announced',
            'fn': fn, 'validate': validate, 'replay': replay, 'mutants': [(n, (lambda r=r: fn(r))) for n, r in muts]}


def queue_check_iteration():
    from bumble import host

    def symbolic(repl=None):
        fn = func_ast(host.DataPacketQueue._check_queue, repl)
        loop = first(fn, ast.While)
        solver = z3.Solver()
        solver.set('timeout', 60000)
        it = Interp(solver, stubs={'logger': _LOGGER})
        vc = VC(it, ('waiting', 'inflight', 'maxif', 'cif'))

        def make_env(s):
            waiting, inflight, maxif, cif = z3.Ints('waiting inflight maxif cif')
            s.add(waiting >= 0, waiting <= 10 ** 6, inflight >= 0, maxif >= 1, maxif <= 65535, inflight <= maxif, cif >= 0, cif <= inflight)
            popped, sent, ev = [], [], []
            cs = Obj(in_flight=cif, drained=Obj(set=lambda: ev.append('set'), clear=lambda: ev.append('clear')))

            class Packets:
                n = waiting

                def __len__(self):
                    return self.n

                def pop(self):
                    # the oldest packet: enqueue() does appendleft, so pop() from the right is FIFO
                    popped.append('right')
                    self.n = self.n - 1
                    return ('pkt', z3.Int('h'))

                def popleft(self):
                    popped.append('left')
                    self.n = self.n - 1
                    return ('newest', z3.Int('h'))
            pk = Packets()

            class States:
                def __getitem__(self, h):
                    return cs
            selfo = Obj(_packets=pk, _in_flight=inflight, max_in_flight=maxif, _send=lambda p: sent.append(p), _connection_state=States())
            return {'self': selfo}, dict(waiting=waiting, inflight=inflight, maxif=maxif, cif=cif, pk=pk, so=selfo, cs=cs, sent=sent, ev=ev, popped=popped)

        def on_path(env, ctx, it, ret):
            waiting, inflight, maxif, cif, pk, so, cs, sent, ev, popped = (ctx[k] for k in ('waiting', 'inflight', 'maxif', 'cif', 'pk', 'so', 'cs', 'sent', 'ev', 'popped'))
            vc.must(z3.And(z3.BoolVal(sent == ['pkt']), z3.BoolVal(popped == ['right']), pk.n == waiting - 1, pk.n >= 0, so._in_flight == inflight + 1, so._in_flight <= maxif,
                           cs.in_flight == cif + 1, z3.BoolVal(ev == ['clear'])))
        it.explore(loop.body, make_env, on_path, entry=lambda it, env: it.require(loop.test, env))
        return vc, it

    def fn(repl=None):
        vc, it = symbolic(repl)
        return _status(vc, it)

    def real_ok(waiting, inflight, maxif):
        q = host.DataPacketQueue.__new__(host.DataPacketQueue)
        sent = []
        q._packets = collections.deque()
        for i in range(waiting):
            q._packets.appendleft((i, 1))
        st = host.DataPacketQueue.PerConnectionState()
        st.in_flight = inflight
        q._connection_state = {1: st}
        q._in_flight, q.max_in_flight = inflight, maxif
        q._send = sent.append
        host.DataPacketQueue._check_queue(q)
        k = min(waiting, max(maxif - inflight, 0))
        return sent == list(range(k)) and q._in_flight == inflight + k and q._in_flight <= max(maxif, inflight) and len(q._packets) == waiting - k

    def validate():
        for w, i, m in ((0, 0, 1), (1, 0, 1), (5, 1, 3), (3, 3, 3), (10, 0, 64), (2, 7, 8)):
            if not real_ok(w, i, m):
                return False, f'the real _check_queue does not satisfy the whole-loop oracle at waiting={w} in_flight={i} max={m}'
        return True, '6 concrete queue states: the real _check_queue sends min(waiting, max - in_flight) oldest packets (the per-iteration VC is the inductive step of this)'

    def replay(model):
        w, i, m = int(model.get('waiting', 0)), int(model.get('inflight', 0)), int(model.get('maxif', 1))
        ok = real_ok(min(w, 2000), i, max(m, 1))
        return (not ok), f'real _check_queue(waiting={w}, in_flight={i}, max={m}) {"violates" if not ok else "satisfies"} the whole-loop oracle'

    muts = [('window-off-by-one', ('self._in_flight < self.max_in_flight', 'self._in_flight <= self.max_in_flight')),
            ('newest-first', ('self._packets.pop()', 'self._packets.popleft()')),
            ('in-flight-not-counted', ('        self._in_flight += 1\n', ''))]
    return {'name': 'queue-_check_queue-iteration', 'kernel': 'bumble.host.DataPacketQueue._check_queue (while-loop body)',
            'bounds': 'one iteration from any state with waiting 1..10^6, in flight < max (1..65535): exactly the oldest packet is sent, in flight grows by one and stays <= max, the connection\'s share grows by one, drained is cleared',
            'fn': fn, 'validate': validate, 'replay': replay, 'mutants': [(n, (lambda r=r: fn(r))) for n, r in muts]}


# ================================================================================= C14: CMAC sub-keys (bit-vectors)
def cmac_subkeys():
    from bumble.crypto import builtin as bi

    def subkey_stmts(repl=None):
        src = source_of(bi._CMAC.__init__, repl)
        fn = ast.parse(src).body[0]
        ifs = [n for n in fn.body if isinstance(n, ast.If) and ('_k1' in ast.unparse(n) or '_k2' in ast.unparse(n))]
        pre = [n for n in fn.body if isinstance(n, ast.If) and 'const_Rb' in ast.unparse(n) and '_k1' not in ast.unparse(n)]
        if len(ifs) != 2:
            raise Unsupported('_CMAC.__init__: sub-key statements not recognised')
        return pre, ifs

    def symbolic(repl=None, repl_shift=None):
        pre, ifs = subkey_stmts(repl)
        rt = BVRuntime()
        ns = {'int': _IntShim, 'len': len, 'bytes': bytes}
        compile_with(bi._shift_bytes, ns, repl_shift)
        body = ast.Module(body=[ast.FunctionDef(name='_subkeys', args=ast.arguments(posonlyargs=[], args=[ast.arg('self'), ast.arg('L'), ast.arg('bs')], kwonlyargs=[], kw_defaults=[], defaults=[]),
                                                body=pre + ifs + [ast.Return(ast.Tuple([ast.Attribute(ast.Name('self', ast.Load()), '_k1', ast.Load()), ast.Attribute(ast.Name('self', ast.Load()), '_k2', ast.Load())], ast.Load()))],
                                                decorator_list=[], type_params=[])], type_ignores=[])
        ast.fix_missing_locations(body)
        ns['core'] = __import__('bumble.core', fromlist=['x'])
        exec(compile(body, '<e2-cmac>', 'exec'), ns)
        L = z3.BitVec('L', 128)
        res = {'cex': None, 'unknown': 0, 'checked': 0}

        def dbl(v):
            return z3.If(z3.Extract(127, 127, v) == 1, (v << 1) ^ z3.BitVecVal(0x87, 128), v << 1)

        def run(rt):
            class S:
                pass
            k1, k2 = ns['_subkeys'](S(), BVBytes(L, 16, rt), 16)
            ok = z3.And(k1.bv == dbl(L), k2.bv == dbl(dbl(L))) if (k1.n == 16 and k2.n == 16) else z3.BoolVal(False)
            rt.solver.push()
            rt.solver.add(z3.Not(ok))
            r = rt.solver.check()
            rt.queries += 1
            res['checked'] += 1
            if r == z3.sat and res['cex'] is None:
                res['cex'] = {'L': '%032x' % rt.solver.model().eval(L, model_completion=True).as_long()}
            elif r == z3.unknown:
                res['unknown'] += 1
            rt.solver.pop()
        rt.explore(run)
        return res, rt

    def fn(repl=None, repl_shift=None):
        res, rt = symbolic(repl, repl_shift)
        if res['cex']:
            return {'status': 'violated', 'model': res['cex'], 'paths': rt.paths, 'queries': rt.queries, 'detail': f'sub-keys differ from RFC 4493 doubling for L = {res["cex"]["L"]}'}
        if res['unknown'] or not res['checked']:
            return {'status': 'unknown', 'paths': rt.paths, 'queries': rt.queries, 'detail': 'solver unknown'}
        return {'status': 'proved', 'paths': rt.paths, 'queries': rt.queries}

    def ref_dbl(b):
        n = int.from_bytes(b, 'big')
        r = (n << 1) & ((1 << 128) - 1)
        return (r ^ 0x87 if n >> 127 else r).to_bytes(16, 'big')

    def real_subkeys(L):
        class E:
            def __init__(self, key):
                pass

            def encrypt(self, data):
                return L
        saved = bi._ECB, bi._CBC
        bi._ECB = E
        bi._CBC = lambda key, iv: None
        try:
            c = bi._CMAC(bytes(16), b'')
            return c._k1, c._k2
        finally:
            bi._ECB, bi._CBC = saved

    def validate():
        for L in (bytes(16), b'\x80' + bytes(15), b'\x40' + bytes(15), b'\xff' * 16, bytes.fromhex('7df76b0c1ab899b33e42f047b91b546f'), b'\xc0' + bytes(14) + b'\x01'):
            k1, k2 = real_subkeys(L)
            if (k1, k2) != (ref_dbl(L), ref_dbl(ref_dbl(L))):
                return False, f'real sub-keys for L={L.hex()} differ from the reference doubling (the VC would report this too)'
        return True, '6 concrete L blocks: real _CMAC sub-keys = reference doubling; the BV run executes the same source statements'

    def replay(model):
        L = bytes.fromhex(model['L'])
        k1, k2 = real_subkeys(L)
        bad = (k1, k2) != (ref_dbl(L), ref_dbl(ref_dbl(L)))
        return bad, f'real _CMAC sub-keys for L={L.hex()} {"differ from" if bad else "equal"} RFC 4493 doubling'

    muts = [('k2-test-greater-than-0x80', lambda: fn(('if self._k1[0] & 0x80:', 'if self._k1[0] > 0x80:'))),
            ('k1-test-on-wrong-bit', lambda: fn(('if L[0] & 0x80:', 'if L[0] & 0x40:'))),
            ('shift-keeps-carry-byte', lambda: fn(None, ('[1:]', '[:-1]')))]
    return {'name': 'cmac-subkeys', 'kernel': 'bumble.crypto.builtin._CMAC.__init__ (sub-key statements) + _shift_bytes',
            'bounds': 'all 2^128 values of L = E_k(0) (128-bit bit-vector, no bound on the key): K1 = dbl(L), K2 = dbl(K1) in GF(2^128) with Rb = 0x87; the cipher itself is outside',
            'fn': fn, 'validate': validate, 'replay': replay, 'mutants': muts}


# ================================================================================= C07: LE credit-based channel
def coc_segment_iteration():
    from bumble import l2cap

    def symbolic(repl=None, pin=None, out=None):
        fn = func_ast(l2cap.LeCreditBasedChannel.process_output, repl)
        loop = first(fn, ast.While)
        seg_if = loop.body[0]
        if not (isinstance(seg_if, ast.If) and ast.unparse(seg_if.test) == 'self.out_sdu is not None'):
            raise Unsupported('process_output: first statement of the loop is not the segment branch')
        solver = z3.Solver()
        solver.set('timeout', 60000)
        it = Interp(solver, stubs={'logger': _LOGGER})
        vc = VC(it, ('S', 'mps', 'credits'))

        def make_env(s):
            S, mps, credits = z3.Ints('S mps credits')
            s.add(S >= 1, S <= 65537, mps >= 1, mps <= 65533, credits >= 1, credits <= 65535)       # out_sdu is never empty when not None
            for name, v in (pin or {}).items():
                s.add({'S': S, 'mps': mps, 'credits': credits}[name] == v)
            sent = []
            so = Obj(out_sdu=SBytes.base('sdu', S), peer_mps=mps, credits=credits, send_pdu=lambda p: sent.append(p))
            return {'self': so}, dict(S=S, mps=mps, credits=credits, so=so, sent=sent)

        def on_path(env, ctx, it, ret):
            S, mps, credits, so, sent = (ctx[k] for k in ('S', 'mps', 'credits', 'so', 'sent'))
            if len(sent) != 1 or ret != 'continue' or len(sent[0].segs) != 1:
                vc.must(z3.BoolVal(False))
                return
            _, start, ln = sent[0].segs[0]
            rest = so.out_sdu
            if out is not None:
                out.append(_ints(None, it.solver, [start, ln, so.credits, (z3.IntVal(0) if rest is None else rest.length())]) + [rest is None])
                return
            if rest is None:
                rest_ok = ln == S
            else:
                rest_ok = z3.And(rest.length() == S - ln, rest.length() >= 1, rest.segs[0][1] == ln if rest.segs else z3.BoolVal(False))
            vc.must(z3.And(start == 0, ln >= 1, ln <= mps, z3.Or(ln == mps, ln == S), so.credits == credits - 1, so.credits >= 0, rest_ok))
        it.explore([seg_if], make_env, on_path, entry=lambda it, env: it.require(loop.test, env))
        return vc, it

    def real(S, mps, credits):
        sent = []
        ch = l2cap.LeCreditBasedChannel.__new__(l2cap.LeCreditBasedChannel)
        ch.out_sdu, ch.peer_mps, ch.credits = bytes(i % 251 for i in range(S)), mps, credits
        ch.out_queue = collections.deque()
        ch.send_pdu = sent.append
        ch.drained = Obj(set=lambda: None)
        l2cap.LeCreditBasedChannel.process_output(ch)
        return ch, sent

    def real_ok(S, mps, credits):
        ch, sent = real(S, mps, credits)
        whole = bytes(i % 251 for i in range(S))
        n = min(credits, -(-S // mps))
        return (len(sent) == n and b''.join(sent) + (ch.out_sdu or b'') == whole and all(1 <= len(p) <= mps for p in sent) and all(len(p) == mps for p in sent[:-1])
                and ch.credits == credits - n and (ch.out_sdu is None) == (n * mps >= S))

    def validate():
        k = 0
        for S, mps, credits in ((1, 1, 1), (2, 23, 1), (23, 23, 5), (24, 23, 1), (100, 23, 2), (65537, 65533, 3), (500, 7, 1)):
            ch, sent = real(S, mps, 1)            # exactly one iteration of the segment branch
            out = []
            symbolic(pin={'S': S, 'mps': mps, 'credits': 1}, out=out)
            want = [0, len(sent[0]), 0, len(ch.out_sdu or b''), ch.out_sdu is None]
            if len(out) != 1 or out[0] != want:
                return False, f'mismatch at S={S} mps={mps}: interpreter {out} vs real {want}'
            k += 1
        return True, f'{k} concrete (SDU, MPS) states agree with one real iteration of LeCreditBasedChannel.process_output'

    def fn(repl=None):
        vc, it = symbolic(repl)
        return _status(vc, it)

    def replay(model):
        S, mps, credits = int(model.get('S', 1)), int(model.get('mps', 1)), int(model.get('credits', 1))
        ok = real_ok(S, mps, min(credits, 70000))
        return (not ok), f'real process_output(out_sdu of {S} bytes, MPS {mps}, credits {credits}) {"violates" if not ok else "satisfies"} the segmentation oracle'

    muts = [('segment-one-byte-over-mps', ('self.out_sdu[: self.peer_mps]', 'self.out_sdu[: self.peer_mps + 1]')),
            ('credit-not-spent', ('self.credits -= 1', 'self.credits -= 0')),
            ('rest-skips-a-byte', ('self.out_sdu[len(packet) :]', 'self.out_sdu[len(packet) + 1 :]'))]
    return {'name': 'coc-process_output-segment', 'kernel': 'bumble.l2cap.LeCreditBasedChannel.process_output (segment branch of the while-loop)',
            'bounds': 'one iteration with an SDU remainder of 1..65537 bytes (2-byte header included), peer MPS 1..65533, credits 1..65535: one K-frame of 1..MPS bytes (full unless last) taken from the front, one credit spent, the remainder is exactly the rest and never empty, None exactly when everything was sent',
            'fn': fn, 'validate': validate, 'replay': replay, 'mutants': [(n, (lambda r=r: fn(r))) for n, r in muts]}


def coc_on_pdu():
    from bumble import l2cap

    def symbolic(repl=None, pin=None, out=None):
        fn = func_ast(l2cap.LeCreditBasedChannel.on_pdu, repl)
        solver = z3.Solver()
        solver.set('timeout', 60000)
        it = Interp(solver, stubs={'logger': _LOGGER})
        names = ('have', 'n', 'hdr', 'pc', 'thr', 'mx')
        vc = VC(it, names)

        def make_env(s):
            have, n, hdr, pc, thr, mx = z3.Ints('have n hdr pc thr mx')
            # receiver state: `have` bytes of the current SDU (0 = none), announced length hdr once two bytes are there
            s.add(have >= 0, n >= 0, n <= 65535, hdr >= 0, hdr <= 65535, z3.Implies(have >= 2, z3.And(hdr >= 1, have < 2 + hdr)),
                  pc >= 0, pc <= mx, mx >= 1, mx <= 65535, thr >= 0, thr < mx)
            for name, v in (pin or {}).items():
                s.add({'have': have, 'n': n, 'hdr': hdr, 'pc': pc, 'thr': thr, 'mx': mx}[name] == v)
            frames, delivered = [], []
            # the value of in_sdu: None when nothing is pending (have == 0 is decided by a fork in the entry hook)
            so = Obj(sink=lambda sdu: delivered.append(sdu), state=1, State=Obj(CONNECTED=1), peer_credits=pc, peer_credits_threshold=thr, peer_max_credits=mx,
                     in_sdu=None, in_sdu_length=z3.If(have >= 2, hdr, 0), source_cid=0x40, connection=None,
                     manager=Obj(next_identifier=lambda c: 1), send_control_frame=lambda f: frames.append(f))
            env = {'self': so, 'pdu': SBytes.base('pdu', n), 'L2CAP_LE_Flow_Control_Credit': lambda **kw: kw,
                   'struct': Obj(unpack_from=lambda fmt, buf, off: (hdr,))}
            return env, dict(have=have, n=n, hdr=hdr, pc=pc, thr=thr, mx=mx, so=so, frames=frames, delivered=delivered)

        def entry(it, env):
            so = env['self']
            have = z3.Int('have')
            if it.truth(have > 0):
                so.in_sdu = SBytes.base('acc', have)

        def on_path(env, ctx, it, ret):
            have, n, hdr, pc, thr, mx, so, frames, delivered = (ctx[k] for k in ('have', 'n', 'hdr', 'pc', 'thr', 'mx', 'so', 'frames', 'delivered'))
            total = have + n
            after = z3.If(pc == 0, 0, pc - 1)
            refill = z3.And(pc > 0, after <= thr)
            credit_ok = z3.And(so.peer_credits == z3.If(refill, mx, after),
                               z3.BoolVal(len(frames) <= 1),
                               (z3.BoolVal(len(frames) == 1) == refill),
                               (frames[0]['credits'] == mx - after) if frames else z3.BoolVal(True),
                               (frames[0]['cid'] == 0x40) if frames else z3.BoolVal(True))
            if out is not None:
                out.append(_ints(None, it.solver, [so.peer_credits, (so.in_sdu.length() if isinstance(so.in_sdu, SBytes) else z3.IntVal(-1)), so.in_sdu_length,
                                                    (delivered[0].length() if delivered else z3.IntVal(-1))]) + [len(frames)])
                return
            complete = z3.And(total >= 2, total == 2 + hdr)
            overflow = z3.And(total >= 2, total > 2 + hdr)
            if delivered:
                d = delivered[0]
                dl_ok = z3.And(z3.BoolVal(len(delivered) == 1), complete, d.length() == hdr, z3.BoolVal(so.in_sdu is None), so.in_sdu_length == 0)
            elif so.in_sdu is None:
                dl_ok = z3.And(overflow, so.in_sdu_length == 0)                      # dropped whole, state reset
            else:
                dl_ok = z3.And(z3.Not(complete), z3.Not(overflow), so.in_sdu.length() == total, so.in_sdu_length == z3.If(total >= 2, hdr, 0))
            vc.must(z3.And(credit_ok, dl_ok))
        it.explore(fn.body, make_env, on_path, entry=entry)
        return vc, it

    def real(have, n, hdr, pc, thr, mx):
        frames, delivered = [], []
        ch = l2cap.LeCreditBasedChannel.__new__(l2cap.LeCreditBasedChannel)
        stream = hdr.to_bytes(2, 'little') + bytes(i % 251 for i in range(max(have + n, 2)))
        ch.sink, ch.state = delivered.append, l2cap.LeCreditBasedChannel.State.CONNECTED
        ch.peer_credits, ch.peer_credits_threshold, ch.peer_max_credits = pc, thr, mx
        ch.in_sdu = stream[:have] if have else None
        ch.in_sdu_length = hdr if have >= 2 else 0
        ch.source_cid, ch.connection = 0x40, None
        ch.manager = Obj(next_identifier=lambda c: 1)
        ch.send_control_frame = frames.append
        l2cap.LeCreditBasedChannel.on_pdu(ch, stream[have:have + n])
        return ch, frames, delivered, stream

    def validate():
        k = 0
        for have, n, hdr, pc, thr, mx in ((0, 5, 3, 4, 1, 8), (0, 1, 0, 1, 0, 2), (1, 1, 0, 2, 1, 4), (1, 4, 3, 0, 3, 7), (3, 2, 3, 2, 2, 5), (3, 9, 3, 9, 2, 9), (0, 2, 0, 3, 1, 3), (4, 1, 7, 5, 4, 6)):
            ch, frames, delivered, stream = real(have, n, hdr, pc, thr, mx)
            out = []
            symbolic(pin={'have': have, 'n': n, 'hdr': hdr, 'pc': pc, 'thr': thr, 'mx': mx}, out=out)
            want = [ch.peer_credits, (len(ch.in_sdu) if ch.in_sdu is not None else -1), ch.in_sdu_length, (len(delivered[0]) if delivered else -1), len(frames)]
            if len(out) != 1 or out[0] != want:
                return False, f'mismatch at have={have} n={n} hdr={hdr} pc={pc}: interpreter {out} vs real {want}'
            k += 1
        return True, f'{k} concrete receiver states agree with the real LeCreditBasedChannel.on_pdu'

    def fn(repl=None):
        vc, it = symbolic(repl)
        return _status(vc, it)

    def replay(model):
        g = lambda k, d=0: int(model.get(k, d))
        have, n, hdr, pc, thr, mx = g('have'), g('n'), g('hdr'), g('pc'), g('thr'), g('mx', 1)
        ch, frames, delivered, stream = real(have, n, hdr, pc, thr, mx)
        total = have + n
        after = 0 if pc == 0 else pc - 1
        refill = pc > 0 and after <= thr
        ok = ch.peer_credits == (mx if refill else after) and len(frames) == (1 if refill else 0) and (not frames or frames[0].credits == mx - after)
        if total >= 2 and total == 2 + hdr:
            ok = ok and delivered == [stream[2:total]] and ch.in_sdu is None
        elif total >= 2 and total > 2 + hdr:
            ok = ok and not delivered and ch.in_sdu is None and ch.in_sdu_length == 0
        else:
            ok = ok and not delivered and ch.in_sdu == stream[:total]
        return (not ok), f'real on_pdu(have={have}, n={n}, announced={hdr}, peer_credits={pc}/{thr}/{mx}) {"violates" if not ok else "satisfies"} the receiver oracle'

    muts = [('refill-counts-the-spent-credit', ('credits=self.peer_max_credits - self.peer_credits', 'credits=self.peer_max_credits - self.peer_credits - 1')),
            ('overflow-delivered', ('if len(self.in_sdu) != 2 + self.in_sdu_length:', 'if len(self.in_sdu) < 2 + self.in_sdu_length:')),
            ('threshold-strict', ('if self.peer_credits <= self.peer_credits_threshold:', 'if self.peer_credits < self.peer_credits_threshold:'))]
    return {'name': 'coc-on_pdu', 'kernel': 'bumble.l2cap.LeCreditBasedChannel.on_pdu',
            'bounds': 'one K-frame of 0..65535 bytes into an arbitrary receiver state (0.. bytes of an SDU pending, announced length 0..65535, peer credits 0..max, threshold < max <= 65535): credits fall by one and are refilled to max with exactly max - remaining when at or below the threshold (one credit frame at most); the SDU is delivered exactly when 2 + announced bytes are there (zero-length included), dropped whole on overflow, accumulated otherwise',
            'fn': fn, 'validate': validate, 'replay': replay, 'mutants': [(n, (lambda r=r: fn(r))) for n, r in muts]}


# ================================================================================= C19: SDP continuation, AVDTP fragmentation
def sdp_next_payload():
    from bumble import sdp

    def symbolic(repl=None, pin=None, out=None):
        fn = func_ast(sdp.Server.get_next_response_payload, repl)
        solver = z3.Solver()
        solver.set('timeout', 60000)
        it = Interp(solver, stubs={'logger': _LOGGER})
        vc = VC(it, ('R', 'mx'))

        def make_env(s):
            R, mx = z3.Ints('R mx')
            s.add(R >= 0, R <= 10 ** 6, mx >= 1, mx <= 65535)
            for name, v in (pin or {}).items():
                s.add({'R': R, 'mx': mx}[name] == v)
            so = Obj(current_response=SBytes.base('resp', R))
            return {'self': so, 'maximum_size': mx, 'Server': Obj(CONTINUATION_STATE='CONT')}, dict(R=R, mx=mx, so=so)

        def on_path(env, ctx, it, ret):
            R, mx, so = ctx['R'], ctx['mx'], ctx['so']
            payload, cont = ret
            rest = so.current_response
            more = cont == 'CONT'
            if out is not None:
                out.append(_ints(None, it.solver, [payload.length(), (rest.length() if rest is not None else z3.IntVal(-1))]) + [more])
                return
            if more:
                if rest is None or len(payload.segs) != 1 or len(rest.segs) != 1:
                    ok = z3.BoolVal(False)
                else:
                    ok = z3.And(payload.length() == mx, rest.length() == R - mx, rest.length() >= 1, rest.segs[0][1] == mx, payload.segs[0][1] == 0)
            else:
                ok = z3.And(payload.length() == R, R <= mx, z3.BoolVal(rest is None), z3.BoolVal(isinstance(cont, SBytes) and env['__lits__'][cont.segs[0][0]] == [0]))
            vc.must(ok)
        it.explore(fn.body, make_env, on_path)
        return vc, it

    def real(R, mx):
        sv = sdp.Server.__new__(sdp.Server)
        whole = bytes(i % 251 for i in range(R))
        sv.current_response = whole
        payload, cont = sdp.Server.get_next_response_payload(sv, mx)
        return whole, payload, cont, sv.current_response

    def validate():
        k = 0
        for R, mx in ((0, 1), (1, 1), (2, 1), (40, 40), (41, 40), (1000, 48), (48, 1000)):
            whole, payload, cont, rest = real(R, mx)
            out = []
            symbolic(pin={'R': R, 'mx': mx}, out=out)
            want = [len(payload), (len(rest) if rest is not None else -1), cont != bytes([0])]
            if len(out) != 1 or out[0] != want:
                return False, f'mismatch at R={R} max={mx}: interpreter {out} vs real {want}'
            k += 1
        return True, f'{k} concrete (response, maximum) states agree with the real Server.get_next_response_payload'

    def fn(repl=None):
        vc, it = symbolic(repl)
        return _status(vc, it)

    def replay(model):
        R, mx = int(model.get('R', 0)), int(model.get('mx', 1))
        whole, payload, cont, rest = real(R, mx)
        ok = payload + (rest or b'') == whole and len(payload) <= mx and ((rest is None) == (cont == bytes([0]))) and (rest is None or len(rest) >= 1)
        return (not ok), f'real get_next_response_payload(len={R}, max={mx}) {"violates" if not ok else "satisfies"} the chunk oracle'

    muts = [('boundary-chunk-announces-more', ('if len(self.current_response) > maximum_size:', 'if len(self.current_response) >= maximum_size:')),
            ('rest-skips-a-byte', ('self.current_response[maximum_size:]', 'self.current_response[maximum_size + 1 :]'))]
    return {'name': 'sdp-next-response-payload', 'kernel': 'bumble.sdp.Server.get_next_response_payload',
            'bounds': 'response remainder 0..10^6 bytes, maximum 1..65535: the chunk is a prefix of at most `maximum` bytes, the rest is exactly what follows and is non-empty exactly when a continuation state is announced',
            'fn': fn, 'validate': validate, 'replay': replay, 'mutants': [(n, (lambda r=r: fn(r))) for n, r in muts]}


def avdtp_send_iteration():
    from bumble import avdtp

    SINGLE, START, CONT, END = 0, 1, 2, 3

    def symbolic(repl=None, pin=None, out=None):
        fn = func_ast(avdtp.Protocol.send_message, repl)
        loop = first(fn, ast.While)
        solver = z3.Solver()
        solver.set('timeout', 60000)
        it = Interp(solver, stubs={'logger': _LOGGER})
        vc = VC(it, ('P', 'mtu', 'pt'))

        def make_env(s):
            P, mtu, pt = z3.Ints('P mtu pt')
            mfs = z3.If(pt == SINGLE, mtu - 2, mtu - 3)
            # state at the head of an iteration, as the code before the loop and the previous iteration leave it
            s.add(P >= 0, P <= 10 ** 6, mtu >= 4, mtu <= 65535, pt >= 0, pt <= 3,
                  z3.Implies(pt == SINGLE, P + 2 <= mtu), z3.Implies(pt == START, P + 2 > mtu),
                  z3.Implies(pt == CONT, P > mfs), z3.Implies(pt == END, z3.And(P >= 1, P <= mfs)))
            for name, v in (pin or {}).items():
                s.add({'P': P, 'mtu': mtu, 'pt': pt}[name] == v)
            written = []
            so = Obj(PacketType=Obj(SINGLE_PACKET=SINGLE, START_PACKET=START, CONTINUE_PACKET=CONT, END_PACKET=END),
                     l2cap_channel=Obj(peer_mtu=mtu, write=lambda d: written.append(d)))
            env = {'self': so, 'payload': SBytes.base('msg', P), 'packet_type': pt, 'max_fragment_size': mfs, 'done': False,
                   'transaction_label': z3.Int('tl'), 'message': Obj(message_type=z3.Int('mt'), signal_identifier=z3.Int('sig'))}
            return env, dict(P=P, mtu=mtu, pt=pt, mfs=mfs, written=written)

        def on_path(env, ctx, it, ret):
            P, mtu, pt, mfs, written = (ctx[k] for k in ('P', 'mtu', 'pt', 'mfs', 'written'))
            if len(written) != 1:
                vc.must(z3.BoolVal(False))
                return
            w = written[0]
            hdr = w.segs[0]
            body = [sg for sg in w.segs if sg[0] == 'msg']
            blen = body[0][2] if body else z3.IntVal(0)
            bstart = body[0][1] if body else z3.IntVal(0)
            lits = env['__lits__'][hdr[0]]
            rest = env['payload']
            done = env['done']
            npt = env['packet_type']
            ceil = lambda a, b: (a + b - 1) / b
            if out is not None:
                out.append(_ints(None, it.solver, [z3.IntVal(len(lits)), blen, rest.length(), (lits[2] if len(lits) == 3 else z3.IntVal(-1)), (npt if not done else z3.IntVal(-1))]))
                return
            ok = z3.And(
                w.length() <= mtu, bstart == 0, blen == z3.If(P <= mfs, P, mfs), rest.length() == P - blen,
                (rest.segs[0][1] == blen) if rest.segs else z3.BoolVal(True),
                z3.IntVal(len(lits)) == z3.If(pt == SINGLE, 2, z3.If(pt == START, 3, 1)),
                lits[1] == env['message'].signal_identifier if len(lits) >= 2 else z3.BoolVal(True),
                # the announced packet count is the number of packets this and the following iterations send
                (z3.Implies(pt == START, lits[2] == ceil(P, mfs))) if len(lits) == 3 else (pt != START),
                z3.BoolVal(done is True) == (rest.length() == 0),
                z3.BoolVal(True) if done else z3.And(npt == z3.If(rest.length() > mfs, CONT, END), pt != SINGLE, pt != END),
                z3.Implies(z3.Or(pt == SINGLE, pt == END), z3.BoolVal(done is True)),
                # the measure "packets still to send" falls by exactly one
                z3.Implies(P >= 1, ceil(rest.length(), mfs) == ceil(P, mfs) - 1),
                env['max_fragment_size'] == mfs)
            vc.must(ok)
        it.explore(loop.body, make_env, on_path, entry=lambda it, env: it.require(loop.test, env))
        return vc, it

    def real(P, mtu):
        written = []
        pr = avdtp.Protocol.__new__(avdtp.Protocol)
        pr.l2cap_channel = Obj(peer_mtu=mtu, write=written.append)
        payload = bytes(i % 251 for i in range(P))
        msg = Obj(payload=payload, message_type=0, signal_identifier=5)
        avdtp.Protocol.send_message(pr, 3, msg)
        return payload, written

    def real_ok(P, mtu):
        payload, written = real(P, mtu)
        if any(len(w) > mtu for w in written):
            return False
        if len(written) == 1 and (written[0][0] >> 2) & 3 == 0:
            return written[0][2:] == payload
        if (written[0][0] >> 2) & 3 != 1 or written[0][2] != len(written):
            return False
        types = [(w[0] >> 2) & 3 for w in written]
        if types != [1] + [2] * (len(written) - 2) + [3]:
            return False
        return written[0][3:] + b''.join(w[1:] for w in written[1:]) == payload

    def validate():
        k = 0
        for P, mtu, pt in ((0, 48, SINGLE), (46, 48, SINGLE), (47, 48, START), (100, 48, START), (90, 48, START)):
            payload, written = real(P, mtu)
            out = []
            symbolic(pin={'P': P, 'mtu': mtu, 'pt': pt}, out=out)
            w = written[0]
            nh = 2 if pt == SINGLE else 3
            nxt = -1 if len(written) == 1 else (w1 := (written[1][0] >> 2) & 3)
            want = [nh, len(w) - nh, P - (len(w) - nh), (w[2] if pt == START else -1), nxt]
            if len(out) != 1 or out[0] != want:
                return False, f'mismatch at P={P} mtu={mtu}: interpreter {out} vs real {want}'
            k += 1
        return True, f'{k} concrete (payload, MTU) states agree with the first packet of the real Protocol.send_message'

    def fn(repl=None):
        vc, it = symbolic(repl)
        return _status(vc, it)

    def replay(model):
        P, mtu = int(model.get('P', 0)), max(int(model.get('mtu', 4)), 4)
        # the model is a loop-head state; the real function is run from the start with that payload/MTU (and every payload up to one more fragment)
        bad = [p for p in {P, P + mtu - 3, P + 2 * (mtu - 3)} if not real_ok(p, mtu)]
        return bool(bad), f'real send_message(payload {bad or P}, MTU {mtu}) {"violates" if bad else "satisfies"} the fragmentation oracle'

    muts = [('packet-count-floor', ('max_fragment_size - 1 + len(payload)', 'len(payload)')),
            ('end-packet-one-early', ('if len(payload) > max_fragment_size', 'if len(payload) >= max_fragment_size')),
            ('fragment-over-mtu', ('payload[:max_fragment_size])', 'payload[: max_fragment_size + 3])'))]
    return {'name': 'avdtp-send_message-iteration', 'kernel': 'bumble.avdtp.Protocol.send_message (while-loop body)',
            'bounds': 'one iteration from any loop-head state: remaining payload 0..10^6, peer MTU 4..65535, packet type single/start/continue/end consistent with the remainder: packet <= MTU, fragment is the next min(remaining, max fragment) bytes, START announces ceil(remaining / max fragment) and that measure falls by one per iteration and reaches 0 exactly when the loop ends, CONTINUE/END chosen by the remainder',
            'fn': fn, 'validate': validate, 'replay': replay, 'mutants': [(n, (lambda r=r: fn(r))) for n, r in muts]}


# ================================================================================= C02: PacketParser.feed_data
def packet_parser_iteration():
    from bumble.transport import common as tc

    T, LN, BD = 0, 1, 2

    def symbolic(repl=None, pin=None, out=None):
        fn = func_ast(tc.PacketParser.feed_data, repl)
        loop = first(fn, ast.While)
        solver = z3.Solver()
        solver.set('timeout', 60000)
        it = Interp(solver, stubs={'logger': _LOGGER, 'color': lambda *a: ''})
        names = ('D', 'off', 'need', 'state', 'plen', 'i0', 'i1', 'body', 'known')
        vc = VC(it, names)

        def make_env(s):
            D, off, need, state, plen, i0, i1, body = z3.Ints('D off need state plen i0 i1 body')
            known = z3.Bool('known')
            left = D - off
            # state at the head of an iteration, as reset() and the previous iterations leave it
            s.add(D >= 1, D <= 70000, off >= 0, left >= 0, need >= 0, need <= 70000, state >= 0, state <= 2, plen >= 0, i0 >= 1, i0 <= 2, i1 >= 1, i1 <= 2, body >= 0, body <= 65535,
                  z3.Implies(state == T, z3.And(plen == 0, need == 1)),
                  z3.Implies(state == LN, z3.And(plen >= 1, plen + need == 1 + i0 + i1, need >= 1)),
                  z3.Implies(state == BD, z3.And(plen + need == 1 + i0 + i1 + body, need >= 1)))
            for name, v in (pin or {}).items():
                s.add({'D': D, 'off': off, 'need': need, 'state': state, 'plen': plen, 'i0': i0, 'i1': i1, 'body': body}[name] == v)
            emitted, resets = [], []

            class Packet:
                def __init__(self):
                    self.segs, self.n = [], plen

                def extend(self, view):
                    self.segs.extend(view.segs)
                    self.n = self.n + view.length()

                def __getitem__(self, i):
                    return z3.Int('ptype')

                def snapshot(self):
                    return ('packet', self.n, list(self.segs))
            pk = Packet()
            so = Obj(bytes_needed=need, state=state, packet=pk, packet_info=None, extended_packet_info=Obj(get=lambda t: None),
                     sink=Obj(on_packet=lambda p: emitted.append(p)))
            so.packet_info = (i0, i1, 'fmt')

            def reset():
                resets.append(1)
                so.state, so.bytes_needed, so.packet_info = T, 1, None
                so.packet = Packet()
                so.packet.n = z3.IntVal(0)
            so.reset = reset

            class Info:
                @staticmethod
                def get(t):
                    # the fork on `known` happens where the code tests the result
                    return KnownOrNone(known, (i0, i1, 'fmt'))
            env = {'self': so, 'data': SBytes.base('data', D), 'data_offset': off, 'data_left': left,
                   'PacketParser': Obj(NEED_TYPE=T, NEED_LENGTH=LN, NEED_BODY=BD), 'HCI_PACKET_INFO': Info, 'struct': Obj(unpack_from=lambda fmt, buf, o: (body,)),
                   'bytes': lambda p: p.snapshot(), 'core': Obj(InvalidPacketError=lambda m: m)}
            return env, dict(D=D, off=off, left=left, need=need, state=state, plen=plen, i0=i0, i1=i1, body=body, known=known, so=so, pk=pk, emitted=emitted, resets=resets)

        class KnownOrNone:
            """the result of the table look-up: the info tuple when the type is known, else None (decided by a fork)"""

            def __init__(self, cond, value):
                self.cond, self.value = cond, value

        orig_truth = it.truth

        def truth(c):
            if isinstance(c, KnownOrNone):
                return orig_truth(c.cond)
            return orig_truth(c)
        it.truth = truth
        orig_boolop = it.ev_BoolOp

        def ev_BoolOp(n, env):
            r = orig_boolop(n, env)
            return r
        it.ev_BoolOp = ev_BoolOp
        orig_assign = it.assign

        def assign(t, v, env):
            # `self.packet_info = lookup or lookup2`: a known type yields the tuple, an unknown one None
            if isinstance(v, KnownOrNone):
                v = v.value if orig_truth(v.cond) else None
            orig_assign(t, v, env)
        it.assign = assign

        def on_path(env, ctx, it, ret):
            D, off, left, need, state, plen, i0, i1, body, known, so, pk, emitted = (ctx[k] for k in ('D', 'off', 'left', 'need', 'state', 'plen', 'i0', 'i1', 'body', 'known', 'so', 'pk', 'emitted'))
            consumed = z3.If(need <= left, need, left)
            if out is not None:
                out.append(_ints(None, it.solver, [env['data_offset'], env['data_left'], so.bytes_needed, so.state, z3.IntVal(len(emitted)), (emitted[0][1] if emitted else z3.IntVal(-1))]) + [ret if isinstance(ret, tuple) else None])
                return
            took = pk.segs[0] if pk.segs else None
            copied = z3.And(took[1] == off, took[2] == consumed, z3.BoolVal(took[0] == 'data')) if (took is not None and len(pk.segs) == 1) else z3.BoolVal(False)
            need1 = need - consumed
            raised = isinstance(ret, tuple) and ret[0] == 'raise'
            base = z3.And(consumed >= 1, env['data_offset'] == off + consumed, env['data_left'] == left - consumed, env['data_offset'] + env['data_left'] == D, copied)
            if raised:
                ok = z3.And(base, state == T, need1 == 0, z3.Not(known), so.state == T, so.bytes_needed == 1, z3.BoolVal(not emitted), so.packet.n == 0)
            else:
                whole = 1 + i0 + i1 + body
                emit_now = z3.Or(z3.And(state == BD, need1 == 0), z3.And(state == LN, need1 == 0, body == 0))
                if emitted:
                    ok = z3.And(base, emit_now, z3.BoolVal(len(emitted) == 1), emitted[0][1] == plen + consumed, emitted[0][1] == whole,
                                so.state == T, so.bytes_needed == 1, so.packet.n == 0)
                else:
                    ok = z3.And(base, z3.Not(emit_now),
                                z3.If(need1 > 0, z3.And(so.state == state, so.bytes_needed == need1, so.packet.n == plen + consumed),
                                      z3.If(state == T, z3.And(known, so.state == LN, so.bytes_needed == i0 + i1, so.packet.n == 1),
                                            z3.And(state == LN, so.state == BD, so.bytes_needed == body, body >= 1, so.packet.n == plen + consumed))))
            vc.must(ok)
        it.explore(loop.body, make_env, on_path, entry=lambda it, env: it.require(loop.test, env))
        return vc, it

    class Sink:
        def __init__(self):
            self.p = []

        def on_packet(self, b):
            self.p.append(bytes(b))

    def real_ok(stream, cuts):
        s1, s2 = Sink(), Sink()
        a, b = tc.PacketParser(s1), tc.PacketParser(s2)
        a.feed_data(stream)
        prev = 0
        for c in sorted(set(cuts)) + [len(stream)]:
            b.feed_data(stream[prev:c])
            prev = c
        return s1.p == s2.p and b''.join(s1.p) == stream

    def validate():
        ev = bytes([4, 0x0E, 3, 1, 2, 3])
        acl = bytes([2, 1, 0, 4, 0, 9, 9, 9, 9])
        cmd0 = bytes([1, 3, 0x0C, 0])
        stream = ev + acl + cmd0 + ev
        n = 0
        for cuts in ([], [1], [2], [3, 4], [5, 6, 7], list(range(1, len(stream)))):
            if not real_ok(stream, cuts):
                return False, f'the real PacketParser does not re-frame the reference stream at cuts {cuts}'
            n += 1
        # interpreter vs real on concrete loop-head states of that stream
        for (off, need, state, plen, i0, i1, body) in ((0, 1, T, 0, 1, 1, 3), (1, 2, LN, 1, 1, 1, 3), (3, 3, BD, 3, 1, 1, 3), (6, 1, T, 0, 2, 2, 4)):
            o = []
            symbolic(pin={'D': len(stream), 'off': off, 'need': need, 'state': state, 'plen': plen, 'i0': i0, 'i1': i1, 'body': body}, out=o)
            got = [x for x in o if x[6] is None]
            p = tc.PacketParser(Sink())
            p.feed_data(stream[:off])
            before = len(p.sink.p)
            # one iteration = feeding exactly the bytes it consumes
            k = min(need, len(stream) - off)
            p.feed_data(stream[off:off + k])
            want = [off + k, len(stream) - off - k, p.bytes_needed, p.state, len(p.sink.p) - before]
            if not got or [g[:5] for g in got][0] != want:
                return False, f'interpreter {got} vs real {want} at offset {off}'
            n += 1
        return True, f'{n} concrete checks: the real parser re-frames a 25-byte reference stream under 6 chunkings, and 4 loop-head states agree with the interpreter'

    def fn(repl=None):
        vc, it = symbolic(repl)
        return _status(vc, it)

    def replay(model):
        ev = bytes([4, 0x0E, 3, 1, 2, 3])
        acl = bytes([2, 1, 0, 4, 0, 9, 9, 9, 9])
        cmd0 = bytes([1, 3, 0x0C, 0])
        stream = ev + acl + cmd0 + ev + acl
        bad = [c for c in range(1, len(stream)) if not real_ok(stream, [c])] + ([] if real_ok(stream, list(range(1, len(stream)))) else ['all'])
        return bool(bad), f'real PacketParser on the reference stream: {"re-framing differs at cuts " + str(bad[:5]) if bad else "identical packets under every single cut and byte-wise feeding"}'

    muts = [('emits-one-byte-early', ('if self.state == PacketParser.NEED_BODY and not self.bytes_needed:', 'if self.state == PacketParser.NEED_BODY and self.bytes_needed <= 1:')),
            ('offset-not-advanced', ('data_offset += consumed', 'data_offset += 0')),
            ('length-phase-skips-a-byte', ('self.bytes_needed = self.packet_info[0] + self.packet_info[1]', 'self.bytes_needed = self.packet_info[0] + self.packet_info[1] - 1'))]
    return {'name': 'packetparser-feed_data-iteration', 'kernel': 'bumble.transport.common.PacketParser.feed_data (while-loop body)',
            'bounds': 'one iteration from any loop-head state (chunk of 1..70000 bytes at any offset; phase type / length / body with the bytes still needed consistent with the packet so far; header geometry 1..2 + 1..2 bytes; body length 0..65535; known or unknown type byte): exactly min(needed, left) bytes are copied from the chunk at the current offset, offset + left is conserved, the phase advances only when its bytes are complete, a packet is emitted exactly when header + body are complete (zero-length bodies at once) with exactly that many bytes, an unknown type resets and raises',
            'fn': fn, 'validate': validate, 'replay': replay, 'mutants': [(n, (lambda r=r: fn(r))) for n, r in muts]}


# ================================================================================= C05: HCI_AclDataPacketAssembler.feed_packet
def acl_assembler_step():
    from bumble import hci

    def symbolic(repl=None, pin=None, out=None):
        fn = func_ast(hci.HCI_AclDataPacketAssembler.feed_packet, repl)
        solver = z3.Solver()
        solver.set('timeout', 60000)
        it = Interp(solver, stubs={'logger': _LOGGER, 'HCI_ACL_PB_FIRST_NON_FLUSHABLE': hci.HCI_ACL_PB_FIRST_NON_FLUSHABLE, 'HCI_ACL_PB_FIRST_FLUSHABLE': hci.HCI_ACL_PB_FIRST_FLUSHABLE,
                                   'HCI_ACL_PB_CONTINUATION': hci.HCI_ACL_PB_CONTINUATION})
        names = ('have', 'L', 'pb', 'n', 'hdr')
        vc = VC(it, names)

        def make_env(s):
            have, L, pb, n, hdr = z3.Ints('have L pb n hdr')
            # assembler state: `have` bytes collected (0 = nothing pending) of a PDU announcing L payload bytes; incoming fragment: PB flag, n bytes
            s.add(have >= 0, L >= 0, L <= 65535, z3.Implies(have > 0, z3.And(have >= 2, have < L + 4)), z3.Implies(have == 0, L == 0), pb >= 0, pb <= 3, n >= 0, n <= 65535, hdr >= 0, hdr <= 65535,
                  z3.Implies(z3.Or(pb == 0, pb == 2), n >= 2))       # a first fragment holds at least the 2-byte length (shorter ones raise struct.error: C17)
            for name, v in (pin or {}).items():
                s.add({'have': have, 'L': L, 'pb': pb, 'n': n, 'hdr': hdr}[name] == v)
            delivered = []
            so = Obj(callback=lambda d: delivered.append(d), current_data=None, l2cap_pdu_length=L)
            env = {'self': so, 'packet': Obj(pb_flag=pb, data=SBytes.base('pkt', n)), 'struct': Obj(unpack_from=lambda fmt, buf, o: (hdr,))}
            return env, dict(have=have, L=L, pb=pb, n=n, hdr=hdr, so=so, delivered=delivered)

        def entry(it, env):
            if it.truth(z3.Int('have') > 0):
                env['self'].current_data = SBytes.base('acc', z3.Int('have'))

        def on_path(env, ctx, it, ret):
            have, L, pb, n, hdr, so, delivered = (ctx[k] for k in ('have', 'L', 'pb', 'n', 'hdr', 'so', 'delivered'))
            cur = so.current_data
            cur_len = cur.length() if isinstance(cur, SBytes) else z3.IntVal(0)
            if out is not None:
                out.append(_ints(None, it.solver, [cur_len, so.l2cap_pdu_length, (delivered[0].length() if delivered else z3.IntVal(-1))]) + [ret if isinstance(ret, tuple) else None])
                return
            first_frag = z3.Or(pb == 0, pb == 2)
            total = z3.If(first_frag, n, have + n)
            ann = z3.If(first_frag, hdr, L)
            raised = isinstance(ret, tuple) and ret[0] == 'raise'
            if raised:
                ok = z3.And(pb == 3, have == 0, z3.BoolVal(not delivered))            # an undefined PB flag with nothing pending trips the assert: an ordinary exception
            elif delivered:
                d = delivered[0]
                whole = d.segs == [('pkt', d.segs[0][1], d.segs[0][2])] if len(d.segs) == 1 else True
                ok = z3.And(z3.BoolVal(len(delivered) == 1), z3.Or(first_frag, z3.And(pb == 1, have > 0)), total == ann + 4, d.length() == total, z3.BoolVal(cur is None), so.l2cap_pdu_length == 0,
                            z3.BoolVal(d.segs[0][0] == ('pkt' if len(d.segs) == 1 else 'acc')))
            elif cur is None:
                # nothing pending afterwards: an overflowing PDU was dropped, or a stray continuation was ignored
                ok = z3.Or(z3.And(z3.Or(first_frag, z3.And(pb == 1, have > 0)), total > ann + 4, so.l2cap_pdu_length == 0),
                           z3.And(pb == 1, have == 0, so.l2cap_pdu_length == L))
            else:
                ok = z3.If(pb == 3, z3.And(have > 0, cur_len == have, so.l2cap_pdu_length == L),
                           z3.And(z3.Or(first_frag, z3.And(pb == 1, have > 0)), total < ann + 4, cur_len == total, so.l2cap_pdu_length == ann))
            vc.must(ok)
        it.explore(fn.body, make_env, on_path, entry=entry)
        return vc, it

    def real(have, L, pb, n, hdr):
        got = []
        a = hci.HCI_AclDataPacketAssembler(got.append)
        stream = bytes(i % 251 for i in range(have + n + 4))
        if have:
            a.current_data = L.to_bytes(2, 'little') + stream[2:have]
            a.l2cap_pdu_length = L
        data = (hdr.to_bytes(2, 'little') + stream[2:n]) if pb in (0, 2) else stream[:n]
        try:
            a.feed_packet(Obj(pb_flag=pb, data=data))
            raised = False
        except AssertionError:
            raised = True
        return a, got, raised

    def validate():
        k = 0
        for have, L, pb, n, hdr in ((0, 0, 2, 6, 2), (0, 0, 2, 4, 5), (0, 0, 0, 9, 2), (3, 7, 1, 8, 0), (3, 7, 1, 2, 0), (3, 7, 1, 20, 0), (0, 0, 1, 5, 0), (5, 9, 3, 1, 0), (0, 0, 3, 1, 0), (4, 2, 2, 6, 2)):
            a, got, raised = real(have, L, pb, n, hdr)
            o = []
            symbolic(pin={'have': have, 'L': L, 'pb': pb, 'n': n, 'hdr': hdr}, out=o)
            want = [len(a.current_data) if a.current_data is not None else 0, a.l2cap_pdu_length, (len(got[0]) if got else -1)]
            if len(o) != 1 or (o[0][3] is not None) != raised or (not raised and o[0][:3] != want):
                return False, f'mismatch at have={have} L={L} pb={pb} n={n} hdr={hdr}: interpreter {o} vs real {want} raised={raised}'
            k += 1
        return True, f'{k} concrete assembler states agree with the real HCI_AclDataPacketAssembler.feed_packet'

    def fn(repl=None):
        vc, it = symbolic(repl)
        return _status(vc, it)

    def replay(model):
        g = lambda k, d=0: int(model.get(k, d))
        have, L, pb, n, hdr = g('have'), g('L'), g('pb'), g('n'), g('hdr')
        a, got, raised = real(have, L, pb, n, hdr)
        first_frag = pb in (0, 2)
        total, ann = (n, hdr) if first_frag else (have + n, L)
        active = first_frag or (pb == 1 and have > 0)
        if raised:
            ok = pb == 3 and have == 0
        elif active and total == ann + 4:
            ok = len(got) == 1 and len(got[0]) == total and a.current_data is None
        elif active and total > ann + 4:
            ok = not got and a.current_data is None
        elif active:
            ok = not got and a.current_data is not None and len(a.current_data) == total
        else:
            ok = not got and (len(a.current_data) if a.current_data else 0) == have
        return (not ok), f'real feed_packet(have={have}, L={L}, pb={pb}, n={n}, announced={hdr}) {"violates" if not ok else "satisfies"} the reassembly oracle'

    muts = [('complete-one-byte-early', ('len(self.current_data) == self.l2cap_pdu_length + 4', 'len(self.current_data) >= self.l2cap_pdu_length + 3')),
            ('continuation-replaces-data', ('self.current_data += packet.data', 'self.current_data = packet.data')),
            ('overflow-kept', ('if len(self.current_data) > self.l2cap_pdu_length + 4:', 'if len(self.current_data) > self.l2cap_pdu_length + 400:'))]
    return {'name': 'acl-assembler-feed_packet', 'kernel': 'bumble.hci.HCI_AclDataPacketAssembler.feed_packet',
            'bounds': 'one ACL fragment (PB flag 0..3, 0..65535 bytes, first fragments >= 2 bytes, announced L2CAP length 0..65535) into an arbitrary assembler state (nothing pending, or 2.. bytes of a PDU still short of its announced length): the PDU is delivered exactly when 4 + announced bytes are there, as the concatenation collected so far; an overflow drops it; a continuation with nothing pending is ignored; an undefined PB flag changes nothing (or trips the assert when nothing is pending)',
            'fn': fn, 'validate': validate, 'replay': replay, 'mutants': [(n, (lambda r=r: fn(r))) for n, r in muts]}


# ================================================================================= C05: Host.send_iso_sdu
def iso_fragmentation():
    from bumble import host, hci

    def symbolic(repl=None, pin=None, out=None):
        fn = func_ast(host.Host.send_iso_sdu, repl)
        loop = first(fn, ast.While)
        solver = z3.Solver()
        solver.set('timeout', 60000)
        it = Interp(solver, stubs={'logger': _LOGGER})
        vc = VC(it, ('L', 'off', 'm', 'first'))

        def make_env(s):
            L, off, m = z3.Ints('L off m')
            firstb = z3.Bool('first')
            rem = L - off
            s.add(L >= 0, L <= 70000, off >= 0, rem >= 0, m >= 5, m <= 65535,
                  z3.Implies(firstb, off == 0), z3.Implies(z3.Not(firstb), z3.And(off >= 1, rem >= 1)))
            for name, v in (pin or {}).items():
                s.add({'L': L, 'off': off, 'm': m}[name] == v if name != 'first' else firstb == v)
            sent = []
            q = Obj(max_packet_size=m, enqueue=lambda pkt, handle: sent.append((pkt, handle)))
            env = {'sdu': SBytes.base('sdu', L), 'offset': off, 'bytes_remaining': rem, 'is_first_fragment': firstb, 'connection_handle': z3.Int('h'),
                   'iso_link': Obj(packet_queue=q, packet_sequence_number=z3.Int('psn')), 'hci': Obj(HCI_IsoDataPacket=lambda **kw: kw)}
            return env, dict(L=L, off=off, m=m, first=firstb, rem=rem, sent=sent)

        def on_path(env, ctx, it, ret):
            L, off, m, firstb, rem, sent = (ctx[k] for k in ('L', 'off', 'm', 'first', 'rem', 'sent'))
            if len(sent) != 1:
                vc.must(z3.BoolVal(False))
                return
            p, handle = sent[0]
            frag = p['iso_sdu_fragment']
            flen = frag.length()
            fstart = frag.segs[0][1] if frag.segs else off
            hdr = z3.If(firstb, 4, 0)
            if out is not None:
                out.append(_ints(None, it.solver, [flen, p['pb_flag'], p['data_total_length'], env['offset'], env['bytes_remaining']]))
                return
            last = rem == flen
            has_len = 'iso_sdu_length' in p
            vc.must(z3.And(flen == z3.If(rem <= m - hdr, rem, m - hdr), fstart == off, p['data_total_length'] == hdr + flen, p['data_total_length'] <= m,
                           p['pb_flag'] == z3.If(firstb, z3.If(last, 2, 0), z3.If(last, 3, 1)),
                           z3.BoolVal(has_len) == firstb, (p['iso_sdu_length'] == L) if has_len else z3.BoolVal(True),
                           (p['packet_sequence_number'] == env['iso_link'].packet_sequence_number) if has_len else z3.BoolVal(True),
                           env['offset'] == off + flen, env['bytes_remaining'] == rem - flen, env['offset'] + env['bytes_remaining'] == L,
                           z3.Or(flen >= 1, z3.And(firstb, L == 0)),                         # progress, except the single packet of an empty SDU
                           z3.BoolVal(env['is_first_fragment'] is False), handle == env['connection_handle'],
                           env['iso_link'].packet_sequence_number == z3.Int('psn')))          # the sequence number moves once per SDU, after the loop
        it.explore(loop.body, make_env, on_path, entry=lambda it, env: it.require(loop.test, env))
        return vc, it

    def real(L, m):
        frags = []
        h = host.Host.__new__(host.Host)
        link = Obj(packet_queue=Obj(max_packet_size=m, enqueue=lambda pkt, handle: frags.append(pkt)), packet_sequence_number=7)
        h.cis_links, h.bis_links = {9: link}, {}
        sdu = bytes(i % 251 for i in range(L))
        host.Host.send_iso_sdu(h, 9, sdu)
        return sdu, frags

    def real_ok(L, m):
        sdu, frags = real(L, m)
        if not frags or b''.join(bytes(f.iso_sdu_fragment) for f in frags) != sdu:
            return False
        flags = [f.pb_flag for f in frags]
        want = [2] if len(frags) == 1 else [0] + [1] * (len(frags) - 2) + [3]
        return flags == want and frags[0].iso_sdu_length == L and all(f.data_total_length <= m for f in frags)

    def validate():
        k = 0
        for L, m in ((0, 5), (1, 5), (2, 5), (10, 8), (4, 8), (5, 8), (300, 64), (70000, 251)):
            sdu, frags = real(L, m)
            o = []
            symbolic(pin={'L': L, 'off': 0, 'm': m, 'first': True}, out=o)
            f = frags[0]
            want = [len(bytes(f.iso_sdu_fragment)), f.pb_flag, f.data_total_length, len(bytes(f.iso_sdu_fragment)), L - len(bytes(f.iso_sdu_fragment))]
            if len(o) != 1 or o[0] != want:
                return False, f'mismatch at L={L} m={m}: interpreter {o} vs real {want}'
            if not real_ok(L, m):
                return False, f'the real send_iso_sdu(L={L}, m={m}) does not satisfy the whole-SDU oracle'
            k += 1
        return True, f'{k} concrete (SDU, packet size) states: first packet agrees with the interpreter and the real function satisfies the whole-SDU oracle'

    def fn(repl=None):
        vc, it = symbolic(repl)
        return _status(vc, it)

    def replay(model):
        L, m = int(model.get('L', 0)), max(int(model.get('m', 5)), 5)
        ok = real_ok(min(L, 70000), m)
        return (not ok), f'real send_iso_sdu(L={L}, max packet {m}) {"violates" if not ok else "satisfies"} the whole-SDU oracle'

    muts = [('header-not-counted', ('iso_link.packet_queue.max_packet_size - header_length\n', 'iso_link.packet_queue.max_packet_size\n')),
            ('last-flag-off-by-one', ('is_last_fragment = bytes_remaining == fragment_length', 'is_last_fragment = bytes_remaining <= fragment_length + 1')),
            ('offset-not-advanced', ('offset += fragment_length', 'offset += 0'))]
    return {'name': 'send_iso_sdu-iteration', 'kernel': 'bumble.host.Host.send_iso_sdu (while-loop body)',
            'bounds': 'one iteration from any loop-head state: SDU 0..70000 bytes, ISO packet size 5..65535, first or later fragment, any offset: the fragment is the next min(remaining, size - header) bytes, total length <= size, PB flag = complete / first / continuation / last exactly by position, the SDU length and sequence number are in the first fragment only and the sequence number of the link does not move inside the loop, offset + remaining is conserved, progress (an empty SDU is one complete packet)',
            'fn': fn, 'validate': validate, 'replay': replay, 'mutants': [(n, (lambda r=r: fn(r))) for n, r in muts]}
