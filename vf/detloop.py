"""Deterministic single-threaded micro event loop: FIFO ready queue, virtual clock, pure-Python
futures/tasks (no C accelerators, no selectors, no weak task registry)."""
import asyncio, collections, heapq, itertools
from asyncio import events, futures, tasks

class _Handle:
    __slots__ = ('cb', 'args', 'cancelled_', 'when')
    def __init__(self, cb, args, when=None):
        self.cb, self.args, self.cancelled_, self.when = cb, args, False, when
    def cancel(self): self.cancelled_ = True
    def cancelled(self): return self.cancelled_

class _Task(tasks._PyTask):
    pass

class DetLoop(asyncio.AbstractEventLoop):
    def __init__(self):
        self.ready = collections.deque()
        self.timers = []
        self.now = 0.0
        self._seq = itertools.count()
        self.exceptions = []
    def get_debug(self): return False
    def time(self): return self.now
    def is_running(self): return True
    def is_closed(self): return False
    def call_soon(self, cb, *args, context=None):
        h = _Handle(cb, args); self.ready.append(h); return h
    call_soon_threadsafe = call_soon
    def call_later(self, delay, cb, *args, context=None):
        return self.call_at(self.now + delay, cb, *args)
    def call_at(self, when, cb, *args, context=None):
        h = _Handle(cb, args, when); heapq.heappush(self.timers, (when, next(self._seq), h)); return h
    def create_future(self): return futures._PyFuture(loop=self)
    def create_task(self, coro, *, name=None, context=None):
        return _Task(coro, loop=self, name=name)
    def call_exception_handler(self, ctx): self.exceptions.append(ctx)
    def _timer_handle_cancelled(self, h): pass
    def run_ready(self, max_steps=10000):
        n = 0
        while self.ready:
            h = self.ready.popleft()
            if not h.cancelled_:
                h.cb(*h.args)
            n += 1
            if n > max_steps:
                raise RuntimeError('detloop: step budget exceeded')
        return n
    def advance(self):
        """fire the earliest timer (virtual time)"""
        while self.timers:
            when, _, h = heapq.heappop(self.timers)
            if h.cancelled_: continue
            self.now = when
            h.cb(*h.args)
            return True
        return False

# avoid the weak registry of tasks (non-deterministic under GC)
tasks._register_task = lambda t: None
tasks._unregister_task = lambda t: None
_Task.__init__.__globals__['_register_task'] = lambda t: None

class running:
    def __init__(self): self.loop = DetLoop()
    def __enter__(self):
        # code under test asks isinstance(x, asyncio.Task) (utils.cancel_on_event): our tasks are the pure-Python class
        self._saved = (asyncio.Task, tasks.Task)
        asyncio.Task = tasks.Task = tasks._PyTask
        events._set_running_loop(self.loop); return self.loop
    def __exit__(self, *a):
        events._set_running_loop(None)
        asyncio.Task, tasks.Task = self._saved
