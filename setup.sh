#!/bin/bash
# Idempotent, offline bootstrap of /verif/.venv: overlay on /venv + crosshair-tool + z3-solver from the wheelhouse.
set -e
cd "$(dirname "$0")"
if [ -x .venv/bin/python ] && .venv/bin/python -c 'import crosshair, z3, bumble' 2>/dev/null; then
  exit 0
fi
exec 9>/tmp/.verif-setup.lock
flock 9
if [ -x .venv/bin/python ] && .venv/bin/python -c 'import crosshair, z3, bumble' 2>/dev/null; then
  exit 0
fi
rm -rf .venv
/venv/bin/python -m venv .venv
SP=$(.venv/bin/python -c 'import site; print(site.getsitepackages()[0])')
printf '/venv/lib/python3.12/site-packages\n/repo\n' > "$SP/verif_overlay.pth"
PIP_NO_INDEX=1 .venv/bin/python -m pip install -q --no-index --find-links /opt/veriftools/wheels crosshair-tool z3-solver >/dev/null
.venv/bin/python -c 'import crosshair, z3, bumble; print("verif venv ok", z3.get_version_string())'
